/-
  The partitioner model produces partitions the executor can run: `WFexec (partitionOf base p)`
  for every well-formed program `p` (PtModel.Partition), hence — with C08's theorems — no
  deadlock and faithful results under every schedule.
-/
import PtProofs.PartitionLemmas
import PtProofs.DistSafety
set_option linter.unusedSectionVars false
set_option linter.unusedVariables false
namespace Pt.Dist

/-! ## generic helpers -/

section Fold
variable {β : Type} (f : β → Nat)

theorem foldl_min_le_init : ∀ (l : List β) (a : Nat), l.foldl (fun acc x => Nat.min acc (f x)) a ≤ a
  | [], _ => Nat.le_refl _
  | x :: t, a => by
    simp only [List.foldl_cons]
    exact Nat.le_trans (foldl_min_le_init t _) (Nat.min_le_left _ _)

theorem foldl_min_le_mem : ∀ (l : List β) (a : Nat) (x : β), x ∈ l →
    l.foldl (fun acc x => Nat.min acc (f x)) a ≤ f x
  | [], _, _, h => by cases h
  | y :: t, a, x, h => by
    simp only [List.foldl_cons]
    rcases List.mem_cons.1 h with h | h
    · subst h
      exact Nat.le_trans (foldl_min_le_init f t _) (Nat.min_le_right _ _)
    · exact foldl_min_le_mem t _ x h

theorem foldl_min_ge : ∀ (l : List β) (a m : Nat), m ≤ a → (∀ x ∈ l, m ≤ f x) →
    m ≤ l.foldl (fun acc x => Nat.min acc (f x)) a
  | [], _, _, h, _ => h
  | y :: t, a, m, h, hall => by
    simp only [List.foldl_cons]
    apply foldl_min_ge t
    · exact Nat.le_min.2 ⟨h, hall y (List.mem_cons_self ..)⟩
    · intro x hx; exact hall x (List.mem_cons_of_mem _ hx)

theorem foldl_min_attained : ∀ (l : List β) (a : Nat),
    l.foldl (fun acc x => Nat.min acc (f x)) a = a ∨
      ∃ x ∈ l, l.foldl (fun acc x => Nat.min acc (f x)) a = f x
  | [], _ => Or.inl rfl
  | y :: t, a => by
    simp only [List.foldl_cons]
    rcases foldl_min_attained t (Nat.min a (f y)) with h | ⟨x, hx, h⟩
    · rw [h]
      rcases Nat.le_total a (f y) with hle | hle
      · left; exact Nat.min_eq_left hle
      · right; exact ⟨y, List.mem_cons_self .., Nat.min_eq_right hle⟩
    · right; exact ⟨x, List.mem_cons_of_mem _ hx, h⟩

end Fold

/-! ## closures -/

section Closure
variable (ch : Nat → List Nat)

theorem closure_self : ∀ (f i : Nat), i ∈ RankSrc.closure ch f i
  | 0, _ => by simp [RankSrc.closure]
  | _ + 1, _ => by simp [RankSrc.closure]

def ClosedUnder (D : List Nat) : Prop := ∀ b ∈ D, ∀ c ∈ ch b, c ∈ D

theorem closure_sub_of_closed {D : List Nat} (hD : ClosedUnder ch D) :
    ∀ (f x : Nat), x ∈ D → ∀ y ∈ RankSrc.closure ch f x, y ∈ D
  | 0, x, hx, y, hy => by
    simp [RankSrc.closure] at hy; subst hy; exact hx
  | f + 1, x, hx, y, hy => by
    simp only [RankSrc.closure, List.mem_cons, List.mem_flatMap] at hy
    rcases hy with h | ⟨c, hc, hyc⟩
    · subst h; exact hx
    · exact closure_sub_of_closed hD f c (hD x hx c hc) y hyc

theorem closure_mono {ch' : Nat → List Nat} (h : ∀ i, ∀ c ∈ ch i, c ∈ ch' i) :
    ∀ (f x : Nat), ∀ y ∈ RankSrc.closure ch f x, y ∈ RankSrc.closure ch' f x
  | 0, _, y, hy => by simpa [RankSrc.closure] using hy
  | f + 1, x, y, hy => by
    simp only [RankSrc.closure, List.mem_cons, List.mem_flatMap] at hy ⊢
    rcases hy with h' | ⟨c, hc, hyc⟩
    · exact Or.inl h'
    · exact Or.inr ⟨c, h x c hc, closure_mono h f c y hyc⟩

end Closure

namespace RankSrc
variable (s : RankSrc)

theorem valueCh_sub_structCh (i : Nat) : ∀ c ∈ s.valueCh i, c ∈ s.structCh i := by
  intro c hc
  unfold valueCh at hc
  unfold structCh
  cases hk : s.kind i <;> simp [hk] at hc ⊢
  · exact hc
  · exact Or.inr hc

theorem valueDeps_sub_structDeps (a : Nat) : ∀ y ∈ s.valueDeps a, y ∈ s.structDeps a :=
  closure_mono _ (s.valueCh_sub_structCh) _ _

theorem self_mem_structDeps (a : Nat) : a ∈ s.structDeps a := closure_self _ _ _

/-- the dependency closures are closed under the child relation (true for every DAG whose
    operands precede their users; decidable, checked per instance) -/
def DepsClosed : Prop := ∀ a, ClosedUnder s.structCh (s.structDeps a)

theorem structDeps_trans (h : s.DepsClosed) {a b : Nat} (hb : b ∈ s.structDeps a) :
    ∀ y ∈ s.structDeps b, y ∈ s.structDeps a :=
  closure_sub_of_closed _ (h a) _ b hb

end RankSrc

/-! ## program ↔ communication graph -/

namespace RankSrc
variable (s : RankSrc)

theorem kind_recv_node {a src tag : Nat} (h : s.kind a = .recv src tag) :
    ∃ n ∈ s.nodes, n.id = a ∧ n.kind = .recv src tag := by
  unfold kind at h
  cases hg : s.get a with
  | none => simp [hg] at h
  | some n =>
    simp only [hg] at h
    unfold get at hg
    have hm := List.mem_of_find?_eq_some hg
    have hp := List.find?_some hg
    exact ⟨n, hm, by simpa using hp, h⟩

theorem mem_recvsOf {r : Nat} {c : CommId} {a : Nat} :
    (c, a) ∈ s.recvsOf r ↔ ∃ n ∈ s.nodes, n.id = a ∧ n.kind = .recv c.src c.tag ∧ c.dst = r := by
  unfold recvsOf
  rw [List.mem_filterMap]
  constructor
  · rintro ⟨n, hn, h⟩
    cases hk : n.kind <;> simp [hk] at h
    obtain ⟨h1, h2⟩ := h
    subst h1 h2
    exact ⟨n, hn, rfl, by simp [hk], rfl⟩
  · rintro ⟨n, hn, hid, hk, hd⟩
    refine ⟨n, hn, ?_⟩
    simp only [hk, Option.some.injEq, Prod.mk.injEq]
    cases c
    simp only at hd ⊢
    subst hd
    exact ⟨rfl, hid⟩

theorem mem_sendsOf {r : Nat} {c : CommId} {d : Nat} :
    (c, d) ∈ s.sendsOf r ↔ ∃ n ∈ s.nodes, ∃ pas, n.kind = .send d c.dst c.tag pas ∧ c.src = r := by
  unfold sendsOf
  rw [List.mem_filterMap]
  constructor
  · rintro ⟨n, hn, h⟩
    cases hk : n.kind <;> simp [hk] at h
    obtain ⟨h1, h2⟩ := h
    subst h1 h2
    exact ⟨n, hn, _, hk, rfl⟩
  · rintro ⟨n, hn, pas, hk, hd⟩
    refine ⟨n, hn, ?_⟩
    simp only [hk, Option.some.injEq, Prod.mk.injEq]
    cases c
    simp only at hd ⊢
    subst hd
    simp

theorem isRecv_kind {a : Nat} (h : s.isRecv a = true) : ∃ src tag, s.kind a = .recv src tag := by
  unfold isRecv at h
  cases hk : s.kind a <;> simp [hk] at h
  exact ⟨_, _, rfl⟩

/-- a receive node is registered as a receive of its rank -/
theorem recv_registered {r a src tag : Nat} (h : s.kind a = .recv src tag) :
    ((⟨src, r, tag⟩ : CommId), a) ∈ s.recvsOf r := by
  obtain ⟨n, hn, hid, hk⟩ := s.kind_recv_node h
  exact (s.mem_recvsOf).2 ⟨n, hn, hid, hk, rfl⟩

end RankSrc

section Bridge
variable (p : Program)

theorem sendsOf_src {r : Nat} {c : CommId} {d : Nat} (h : (c, d) ∈ (p.rank r).sendsOf r) : c.src = r := by
  obtain ⟨_, _, _, _, hs⟩ := ((p.rank r).mem_sendsOf).1 h
  exact hs

theorem recvsOf_dst {r : Nat} {c : CommId} {a : Nat} (h : (c, a) ∈ (p.rank r).recvsOf r) : c.dst = r := by
  obtain ⟨_, _, _, _, hs⟩ := ((p.rank r).mem_recvsOf).1 h
  exact hs

/-- the `SendOp` the gatherer builds for a send of rank `r` -/
def sendOpOf (r : Nat) (cd : CommId × Nat) : SendOp :=
  { rank := r, dst := cd.1.dst, tag := cd.1.tag,
    deps := (((p.rank r).valueDeps cd.2).filterMap fun i => match (p.rank r).kind i with
      | .recv src tag => some (src, tag)
      | _ => none).eraseDups }

theorem sendOpOf_mem {r : Nat} (hr : r < p.length) {cd : CommId × Nat}
    (h : cd ∈ (p.rank r).sendsOf r) : sendOpOf p r cd ∈ p.commGraph.sends := by
  unfold Program.commGraph
  simp only [List.mem_flatMap, List.mem_range, List.mem_map]
  exact ⟨r, hr, cd, h, rfl⟩

theorem sendOpOf_id {r : Nat} {cd : CommId × Nat} (h : cd ∈ (p.rank r).sendsOf r) :
    (sendOpOf p r cd).id = cd.1 := by
  have := sendsOf_src p (c := cd.1) (d := cd.2) h
  cases hcd : cd with
  | mk c d =>
    cases c
    simp [sendOpOf, SendOp.id, hcd] at this ⊢
    exact this.symm

theorem send_mem_sendIds {r : Nat} (hr : r < p.length) {cd : CommId × Nat}
    (h : cd ∈ (p.rank r).sendsOf r) : cd.1 ∈ p.commGraph.sendIds := by
  unfold CommGraph.sendIds
  exact List.mem_map.2 ⟨_, sendOpOf_mem p hr h, sendOpOf_id p h⟩

/-- a receive in the data-flow closure of a payload is a dependency of the send -/
theorem recv_dep_of_valueDeps {r : Nat} (hr : r < p.length) {cd : CommId × Nat}
    (h : cd ∈ (p.rank r).sendsOf r) {a src tag : Nat} (ha : a ∈ (p.rank r).valueDeps cd.2)
    (hk : (p.rank r).kind a = .recv src tag) : (⟨src, r, tag⟩ : CommId) ∈ p.commGraph.deps cd.1 := by
  rw [mem_deps_iff]
  refine ⟨sendOpOf p r cd, sendOpOf_mem p hr h, sendOpOf_id p h, ?_⟩
  unfold SendOp.depIds
  rw [List.mem_map]
  refine ⟨(src, tag), ?_, by simp [sendOpOf]⟩
  simp only [sendOpOf]
  rw [List.mem_eraseDups, List.mem_filterMap]
  exact ⟨a, ha, by simp [hk]⟩

theorem recv_mem_recvIds {r : Nat} (hr : r < p.length) {c : CommId} {a : Nat}
    (h : (c, a) ∈ (p.rank r).recvsOf r) : c ∈ p.commGraph.recvIds := by
  unfold CommGraph.recvIds Program.commGraph
  simp only [List.mem_map, List.mem_flatMap, List.mem_range]
  refine ⟨⟨r, c.src, c.tag⟩, ⟨r, hr, (c, a), h, rfl⟩, ?_⟩
  have := recvsOf_dst p h
  cases c
  simp [RecvOp.id] at this ⊢
  exact this.symm

/-- every send id of the graph comes from a send node of its source rank -/
theorem sendIds_inv {c : CommId} (h : c ∈ p.commGraph.sendIds) :
    c.src < p.length ∧ ∃ d, (c, d) ∈ (p.rank c.src).sendsOf c.src := by
  unfold CommGraph.sendIds Program.commGraph at h
  simp only [List.mem_map, List.mem_flatMap, List.mem_range] at h
  obtain ⟨sop, ⟨r, hr, cd, hcd, hsop⟩, hid⟩ := h
  have hsrc := sendsOf_src p (c := cd.1) (d := cd.2) hcd
  have hc : cd.1 = c := by
    rw [← hid, ← hsop]
    cases hx : cd with
    | mk c' d =>
      cases c'
      simp [SendOp.id, hx] at hsrc ⊢
      exact hsrc
  have : c.src = r := by rw [← hc]; exact hsrc
  rw [this]
  exact ⟨hr, cd.2, by rw [← hc]; exact hcd⟩

theorem recvIds_inv {c : CommId} (h : c ∈ p.commGraph.recvIds) :
    c.dst < p.length ∧ ∃ a, (c, a) ∈ (p.rank c.dst).recvsOf c.dst := by
  unfold CommGraph.recvIds Program.commGraph at h
  simp only [List.mem_map, List.mem_flatMap, List.mem_range] at h
  obtain ⟨rop, ⟨r, hr, ca, hca, hrop⟩, hid⟩ := h
  have hdst := recvsOf_dst p (c := ca.1) (a := ca.2) hca
  have hc : ca.1 = c := by
    rw [← hid, ← hrop]
    cases hx : ca with
    | mk c' a =>
      cases c'
      simp [RecvOp.id, hx] at hdst ⊢
      exact hdst
  have : c.dst = r := by rw [← hc]; exact hdst
  rw [this]
  exact ⟨hr, ca.2, by rw [← hc]; exact hca⟩

/-- the gatherer only records receives as dependencies -/
theorem depsAreRecvs : DepsAreRecvs p.commGraph := by
  intro sop hs d hd
  unfold Program.commGraph at hs
  simp only [List.mem_flatMap, List.mem_range, List.mem_map] at hs
  obtain ⟨r, hr, cd, hcd, rfl⟩ := hs
  unfold SendOp.depIds at hd
  rw [List.mem_map] at hd
  obtain ⟨st, hst, rfl⟩ := hd
  simp only at hst
  rw [List.mem_eraseDups, List.mem_filterMap] at hst
  obtain ⟨a, _, hk⟩ := hst
  cases hka : (p.rank r).kind a <;> simp [hka] at hk
  subst hk
  exact recv_mem_recvIds p hr ((p.rank r).recv_registered (r := r) hka)

end Bridge

/-! ## well-formed programs -/

/-- The programs the partitioner is specified for. -/
structure GoodProgram (p : Program) : Prop where
  /-- sends and receives match, no duplicates, no self communication, acyclic (C10's `Valid`) -/
  valid : Valid p.commGraph
  /-- dependency closures are closed (operands precede users) -/
  closed : ∀ r, (p.rank r).DepsClosed
  /-- node ids are unique -/
  idsNodup : ∀ r, (p.rank r).ids.Nodup
  /-- one receive node per receive id on a rank (implied by `valid`; stated for convenience) -/
  recvIdsLocal : ∀ r, (((p.rank r).recvsOf r).map (·.1)).Nodup
  /-- every receive a payload reaches through ANY edge it also reaches by data flow — excludes
      the recorded finding "payload computed from a send holder whose stapled send depends on a
      receive" -/
  payloadValue : ∀ r, ∀ cd ∈ (p.rank r).sendsOf r, ∀ a ∈ (p.rank r).structDeps cd.2,
    (p.rank r).isRecv a = true → a ∈ (p.rank r).valueDeps cd.2
  /-- no received array is sent on unchanged — excludes the recorded finding "send of an
      unmodified receive" -/
  noForward : ∀ r, ∀ cd ∈ (p.rank r).sendsOf r, (p.rank r).isRecv cd.2 = false

section Index
variable {p : Program} (hp : GoodProgram p)
include hp

/-- the batches of the program -/
abbrev Program.batches (p : Program) : List (List CommId) := rawBatches p.commGraph
/-- the local parts of rank `r` -/
abbrev Program.skel (p : Program) (r : Nat) : List SkelPart := partsOf r p.batches
/-- part index of a communication id on rank `r` -/
abbrev Program.pidx (p : Program) (r : Nat) (c : CommId) : Nat := partIndexOf (p.skel r) c

theorem skel_index_le {r j k : Nat} {q q' : SkelPart} (hj : (p.skel r)[j]? = some q)
    (hk : (p.skel r)[k]? = some q') (hc : q.cand ≤ q'.cand) : j ≤ k := by
  apply Classical.byContradiction
  intro hn
  have hlt : k < j := by omega
  have hpw := partsOf_cand_increasing r p.batches
  rw [List.pairwise_iff_getElem] at hpw
  obtain ⟨hjl, hjq⟩ := List.getElem?_eq_some_iff.1 hj
  obtain ⟨hkl, hkq⟩ := List.getElem?_eq_some_iff.1 hk
  have := hpw k j hkl hjl hlt
  rw [hjq, hkq] at this
  omega

theorem skel_index_lt {r j k : Nat} {q q' : SkelPart} (hj : (p.skel r)[j]? = some q)
    (hk : (p.skel r)[k]? = some q') (hc : q.cand < q'.cand) : j < k := by
  have hle := skel_index_le hp hj hk (Nat.le_of_lt hc)
  rcases Nat.lt_or_ge j k with h | h
  · exact h
  · have : j = k := by omega
    subst this
    rw [hj] at hk
    have := Option.some.inj hk
    subst this
    omega

theorem send_not_self {c : CommId} (hc : c ∈ p.commGraph.sendIds) : c.src ≠ c.dst := by
  obtain ⟨sop, hs, hid⟩ := List.mem_map.1 hc
  have := hp.valid.noSelfSend sop hs
  rw [← hid]; exact this

/-- the part index of a send is the index of the part that carries it -/
theorem pidx_of_send {r k : Nat} {q : SkelPart} {c : CommId} (hk : (p.skel r)[k]? = some q)
    (hc : c ∈ q.sends) : p.pidx r c = k := by
  obtain ⟨hkl, hkq⟩ := List.getElem?_eq_some_iff.1 hk
  have hqm : q ∈ p.skel r := List.mem_of_getElem? hk
  have hcs : c ∈ p.commGraph.sendIds ∧ c.src = r := by
    obtain ⟨_, hqs, _⟩ := mem_partsOf r _ hqm
    rw [hqs] at hc
    obtain ⟨b, hb, hcb, hsrc⟩ := (mem_candSends _ _).1 hc
    exact ⟨(rawBatches_inv hp.valid).mem _ b hb c hcb, hsrc⟩
  show List.findIdx _ _ = k
  rw [List.findIdx_eq hkl]
  refine ⟨by rw [hkq]; simp [hc], ?_⟩
  intro j hji
  have hjl : j < (p.skel r).length := by omega
  apply Bool.eq_false_iff.2
  intro hpred
  have hj : (p.skel r)[j]? = some (p.skel r)[j] := List.getElem?_eq_getElem hjl
  have hjm : (p.skel r)[j] ∈ p.skel r := List.getElem_mem hjl
  simp only [Bool.or_eq_true, List.contains_iff_mem] at hpred
  rcases hpred with h | h
  · have := skel_send_unique hp.valid hjm hqm h hc
    have hpw := partsOf_cand_increasing r p.batches
    rw [List.pairwise_iff_getElem] at hpw
    have h2 := hpw j k hjl hkl hji
    rw [hkq, this] at h2
    omega
  · obtain ⟨hjr, _, _⟩ := mem_partsOf r _ hjm
    rw [hjr] at h
    obtain ⟨_, b, hb, hcb, hdst⟩ := (mem_candRecvs _ _).1 h
    exact send_not_self hp hcs.1 (by rw [hcs.2, hdst])

/-- the part index of a receive is the index of the part that carries it -/
theorem pidx_of_recv {r k : Nat} {q : SkelPart} {c : CommId} (hk : (p.skel r)[k]? = some q)
    (hc : c ∈ q.recvs) : p.pidx r c = k := by
  obtain ⟨hkl, hkq⟩ := List.getElem?_eq_some_iff.1 hk
  have hqm : q ∈ p.skel r := List.mem_of_getElem? hk
  have hcs : c ∈ p.commGraph.sendIds ∧ c.dst = r := by
    obtain ⟨hqr, _, _⟩ := mem_partsOf r _ hqm
    rw [hqr] at hc
    obtain ⟨_, b, hb, hcb, hdst⟩ := (mem_candRecvs _ _).1 hc
    exact ⟨(rawBatches_inv hp.valid).mem _ b hb c hcb, hdst⟩
  show List.findIdx _ _ = k
  rw [List.findIdx_eq hkl]
  refine ⟨by rw [hkq]; simp [hc], ?_⟩
  intro j hji
  have hjl : j < (p.skel r).length := by omega
  apply Bool.eq_false_iff.2
  intro hpred
  have hj : (p.skel r)[j]? = some (p.skel r)[j] := List.getElem?_eq_getElem hjl
  have hjm : (p.skel r)[j] ∈ p.skel r := List.getElem_mem hjl
  simp only [Bool.or_eq_true, List.contains_iff_mem] at hpred
  rcases hpred with h | h
  · obtain ⟨_, hjs, _⟩ := mem_partsOf r _ hjm
    rw [hjs] at h
    obtain ⟨b, hb, hcb, hsrc⟩ := (mem_candSends _ _).1 h
    exact send_not_self hp hcs.1 (by rw [hcs.2, hsrc])
  · have := skel_recv_unique hp.valid hjm hqm h hc
    have hpw := partsOf_cand_increasing r p.batches
    rw [List.pairwise_iff_getElem] at hpw
    have h2 := hpw j k hjl hkl hji
    rw [hkq, this] at h2
    omega

/-- every send of rank `r` sits in a part of `r` -/
theorem send_part {c : CommId} (hc : c ∈ p.commGraph.sendIds) :
    ∃ k q, (p.skel c.src)[k]? = some q ∧ c ∈ q.sends ∧ p.pidx c.src c = k := by
  obtain ⟨q, hq, hcq⟩ := skel_send_exists hp.valid (depsAreRecvs p) hc
  obtain ⟨k, hkl, hkq⟩ := List.mem_iff_getElem.1 hq
  have hk : (p.skel c.src)[k]? = some q := by rw [List.getElem?_eq_getElem hkl, hkq]
  exact ⟨k, q, hk, hcq, pidx_of_send hp hk hcq⟩

theorem recv_part {c : CommId} (hc : c ∈ p.commGraph.recvIds) :
    ∃ k q, (p.skel c.dst)[k]? = some q ∧ c ∈ q.recvs ∧ p.pidx c.dst c = k := by
  obtain ⟨q, hq, hcq⟩ := skel_recv_exists hp.valid (depsAreRecvs p) hc
  obtain ⟨k, hkl, hkq⟩ := List.mem_iff_getElem.1 hq
  have hk : (p.skel c.dst)[k]? = some q := by rw [List.getElem?_eq_getElem hkl, hkq]
  exact ⟨k, q, hk, hcq, pidx_of_recv hp hk hcq⟩

theorem dep_dst {c d : CommId} (h : d ∈ p.commGraph.deps c) : d.dst = c.src := by
  obtain ⟨sop, _, hid, hd⟩ := mem_deps_iff.1 h
  unfold SendOp.depIds at hd
  obtain ⟨st, _, rfl⟩ := List.mem_map.1 hd
  rw [← hid]; rfl

/-- a send's part is no earlier than the part of any receive its payload depends on -/
theorem pidx_dep_le {c d : CommId} (hc : c ∈ p.commGraph.sendIds) (hd : d ∈ p.commGraph.deps c) :
    p.pidx c.src d ≤ p.pidx c.src c := by
  obtain ⟨k, q, hk, hcq, hpk⟩ := send_part hp hc
  obtain ⟨q', hq', hdq', hle⟩ := skel_send_after_deps hp.valid (List.mem_of_getElem? hk) hcq hd
  have hdd := dep_dst hp hd
  rw [hdd] at hq'
  obtain ⟨j, hjl, hjq⟩ := List.mem_iff_getElem.1 hq'
  have hj : (p.skel c.src)[j]? = some q' := by rw [List.getElem?_eq_getElem hjl, hjq]
  rw [hpk, pidx_of_recv hp hj hdq']
  exact skel_index_le hp hj hk hle

/-- a send whose dependencies are among those of another send of the rank is not placed later -/
theorem pidx_mono {c c' : CommId} (hc : c ∈ p.commGraph.sendIds) (hc' : c' ∈ p.commGraph.sendIds)
    (hsrc : c.src = c'.src) (hsub : ∀ d ∈ p.commGraph.deps c, d ∈ p.commGraph.deps c') :
    p.pidx c.src c ≤ p.pidx c.src c' := by
  obtain ⟨k', q', hk', hcq', hpk'⟩ := send_part hp hc'
  obtain ⟨k, q, hk, hcq, hpk⟩ := send_part hp hc
  rw [hpk, hsrc, hpk']
  rw [hsrc] at hk
  apply skel_index_le hp hk hk'
  -- batch of c is no later than the batch of c'
  obtain ⟨_, hqs, _⟩ := mem_partsOf _ _ (List.mem_of_getElem? hk)
  obtain ⟨_, hqs', _⟩ := mem_partsOf _ _ (List.mem_of_getElem? hk')
  rw [hqs] at hcq; rw [hqs'] at hcq'
  obtain ⟨b, hb, hcb, _⟩ := (mem_candSends _ _).1 hcq
  obtain ⟨b', hb', hcb', _⟩ := (mem_candSends _ _).1 hcq'
  have hinv := rawBatches_inv hp.valid
  obtain ⟨j, hj, b'', hb'', hcb''⟩ := hinv.asap _ b' hb' c hc (by
    intro d hd
    exact hinv.depsEarlier _ b' hb' c' hcb' d (hsub d hd))
  have := flatten_nodup_unique hinv.nodup hb hb'' hcb hcb''
  omega

end Index

/-! ## placement of arrays -/

theorem eq_of_map_eq_of_nodup {α β : Type} (f : α → β) : ∀ {l : List α}, (l.map f).Nodup →
    ∀ {x y : α}, x ∈ l → y ∈ l → f x = f y → x = y
  | [], _, _, _, hx, _, _ => by cases hx
  | a :: t, hnd, x, y, hx, hy, hxy => by
    simp only [List.map_cons, List.nodup_cons] at hnd
    rcases List.mem_cons.1 hx with h1 | h1 <;> rcases List.mem_cons.1 hy with h2 | h2
    · rw [h1, h2]
    · exfalso; apply hnd.1; rw [← h1, hxy]; exact List.mem_map.2 ⟨y, h2, rfl⟩
    · exfalso; apply hnd.1; rw [← h2, ← hxy]; exact List.mem_map.2 ⟨x, h1, rfl⟩
    · exact eq_of_map_eq_of_nodup f hnd.2 h1 h2 hxy

section Placement
variable {p : Program} (hp : GoodProgram p) {r : Nat} (hr : r < p.length)
include hp hr

theorem skel_length_pos : 0 < (p.skel r).length := by
  show 0 < (partsOf r p.batches).length
  unfold partsOf
  by_cases hk : keptParts r p.batches = []
  · rw [if_pos hk]; simp
  · rw [if_neg hk]; exact List.length_pos_iff.2 hk

theorem placeMso_lt (a : Nat) : placeMso (p.rank r) r (p.skel r) a < (p.skel r).length := by
  have := skel_length_pos hp hr
  unfold placeMso
  have : Nat.min (firstDepSend (p.rank r) r (p.skel r) a) ((p.skel r).length - 1) ≤ (p.skel r).length - 1 :=
    Nat.min_le_right _ _
  omega

/-- the dependencies the gatherer records for a send, exactly -/
theorem deps_char {cd : CommId × Nat} (h : cd ∈ (p.rank r).sendsOf r) {d : CommId} :
    d ∈ p.commGraph.deps cd.1 ↔
      ∃ a ∈ (p.rank r).valueDeps cd.2, ∃ src tag, (p.rank r).kind a = .recv src tag ∧ d = ⟨src, r, tag⟩ := by
  constructor
  · intro hd
    obtain ⟨sop, hs, hid, hds⟩ := mem_deps_iff.1 hd
    have hsop : sop = sendOpOf p r cd :=
      eq_of_map_eq_of_nodup SendOp.id hp.valid.sendsNodup hs (sendOpOf_mem p hr h)
        (by rw [hid, sendOpOf_id p h])
    subst hsop
    unfold SendOp.depIds at hds
    obtain ⟨st, hst, rfl⟩ := List.mem_map.1 hds
    simp only [sendOpOf] at hst
    rw [List.mem_eraseDups, List.mem_filterMap] at hst
    obtain ⟨a, ha, hk⟩ := hst
    cases hka : (p.rank r).kind a <;> simp [hka] at hk
    subst hk
    exact ⟨a, ha, _, _, hka, rfl⟩
  · rintro ⟨a, ha, src, tag, hk, rfl⟩
    exact recv_dep_of_valueDeps p hr h ha hk

theorem pidx_send_lt {cd : CommId × Nat} (h : cd ∈ (p.rank r).sendsOf r) :
    p.pidx r cd.1 < (p.skel r).length := by
  have hc := send_mem_sendIds p hr h
  obtain ⟨k, q, hk, _, hpk⟩ := send_part hp hc
  rw [sendsOf_src p (c := cd.1) (d := cd.2) h] at hk hpk
  rw [hpk]; exact (List.getElem?_eq_some_iff.1 hk).1

theorem firstDepSend_le_of_dep {cd : CommId × Nat} (h : cd ∈ (p.rank r).sendsOf r) {a : Nat}
    (ha : a ∈ (p.rank r).structDeps cd.2) :
    firstDepSend (p.rank r) r (p.skel r) a ≤ p.pidx r cd.1 := by
  unfold firstDepSend
  apply foldl_min_le_mem (fun cd : CommId × Nat => partIndexOf (p.skel r) cd.1)
  exact List.mem_filter.2 ⟨h, List.contains_iff_mem.2 ha⟩

theorem firstDepSend_mono {a A : Nat} (ha : a ∈ (p.rank r).structDeps A) :
    firstDepSend (p.rank r) r (p.skel r) a ≤ firstDepSend (p.rank r) r (p.skel r) A := by
  conv => rhs; unfold firstDepSend
  apply foldl_min_ge
  · unfold firstDepSend; exact foldl_min_le_init _ _ _
  · intro cd hcd
    obtain ⟨hmem, hA⟩ := List.mem_filter.1 hcd
    have hA' : A ∈ (p.rank r).structDeps cd.2 := by simpa using hA
    exact firstDepSend_le_of_dep hp hr hmem ((p.rank r).structDeps_trans (hp.closed r) hA' a ha)

theorem placeMso_mono {a A : Nat} (ha : a ∈ (p.rank r).structDeps A) :
    placeMso (p.rank r) r (p.skel r) a ≤ placeMso (p.rank r) r (p.skel r) A := by
  unfold placeMso
  have := firstDepSend_mono hp hr ha
  exact Nat.le_min.2 ⟨Nat.le_trans (Nat.min_le_left _ _) this, Nat.min_le_right _ _⟩

/-- a sent array is computed in the part that sends it -/
theorem placeMso_send {cd : CommId × Nat} (h : cd ∈ (p.rank r).sendsOf r) :
    placeMso (p.rank r) r (p.skel r) cd.2 = p.pidx r cd.1 := by
  have hlt := pidx_send_lt hp hr h
  have hle := firstDepSend_le_of_dep hp hr h ((p.rank r).self_mem_structDeps cd.2)
  have hge : p.pidx r cd.1 ≤ firstDepSend (p.rank r) r (p.skel r) cd.2 := by
    conv => rhs; unfold firstDepSend
    apply foldl_min_ge
    · exact Nat.le_of_lt hlt
    · intro cd' hcd'
      obtain ⟨hmem', hA⟩ := List.mem_filter.1 hcd'
      have hA' : cd.2 ∈ (p.rank r).structDeps cd'.2 := by simpa using hA
      have hs1 := sendsOf_src p (c := cd.1) (d := cd.2) h
      have hs2 := sendsOf_src p (c := cd'.1) (d := cd'.2) hmem'
      have := pidx_mono hp (send_mem_sendIds p hr h) (send_mem_sendIds p hr hmem') (by rw [hs1, hs2]) (by
        intro d hd
        obtain ⟨a, ha, src, tag, hk, rfl⟩ := (deps_char hp hr h).1 hd
        apply (deps_char hp hr hmem').2
        refine ⟨a, ?_, src, tag, hk, rfl⟩
        apply hp.payloadValue r cd' hmem' a
        · exact (p.rank r).structDeps_trans (hp.closed r) hA' a ((p.rank r).valueDeps_sub_structDeps _ a ha)
        · simp [RankSrc.isRecv, hk])
      rw [hs1] at this; exact this
  unfold placeMso
  have : firstDepSend (p.rank r) r (p.skel r) cd.2 = p.pidx r cd.1 := by omega
  rw [this]
  exact Nat.min_eq_left (by omega)

/-- a receive an array depends on is received no later than the array is computed -/
theorem recv_pidx_le_place {a A src tag : Nat} (ha : a ∈ (p.rank r).structDeps A)
    (hk : (p.rank r).kind a = .recv src tag) :
    p.pidx r ⟨src, r, tag⟩ ≤ placeMso (p.rank r) r (p.skel r) A := by
  have hreg := (p.rank r).recv_registered (r := r) hk
  have hrid := recv_mem_recvIds p hr hreg
  obtain ⟨k, q, hkq, _, hpk⟩ := recv_part hp hrid
  have hklt : k < (p.skel r).length := (List.getElem?_eq_some_iff.1 hkq).1
  simp only at hpk hklt
  unfold placeMso
  apply Nat.le_min.2
  refine ⟨?_, by omega⟩
  unfold firstDepSend
  apply foldl_min_ge
  · omega
  · intro cd hcd
    obtain ⟨hmem, hA⟩ := List.mem_filter.1 hcd
    have hA' : A ∈ (p.rank r).structDeps cd.2 := by simpa using hA
    have hav : a ∈ (p.rank r).valueDeps cd.2 :=
      hp.payloadValue r cd hmem a ((p.rank r).structDeps_trans (hp.closed r) hA' a ha)
        (by simp [RankSrc.isRecv, hk])
    have hdep := recv_dep_of_valueDeps p hr hmem hav hk
    have := pidx_dep_le hp (send_mem_sendIds p hr hmem) hdep
    rw [sendsOf_src p (c := cd.1) (d := cd.2) hmem] at this
    exact this

/-- the part of a received array is the part that receives it -/
theorem placeRecv_eq {c : CommId} {a : Nat} (h : (c, a) ∈ (p.rank r).recvsOf r) :
    placeRecv (p.rank r) r (p.skel r) a = p.pidx r c := by
  unfold placeRecv
  cases hf : ((p.rank r).recvsOf r).find? (fun cd => cd.2 == a) with
  | none =>
    have := List.find?_eq_none.1 hf (c, a) h
    simp at this
  | some cd' =>
    have hm := List.mem_of_find?_eq_some hf
    have hpa : cd'.2 = a := by simpa using List.find?_some hf
    obtain ⟨n, hn, hid, hkn, hd⟩ := ((p.rank r).mem_recvsOf).1 h
    obtain ⟨n', hn', hid', hkn', hd'⟩ := ((p.rank r).mem_recvsOf (c := cd'.1) (a := cd'.2)).1 hm
    have hnn : n' = n := eq_of_map_eq_of_nodup PNode.id (hp.idsNodup r) hn' hn (by rw [hid', hpa, hid])
    subst hnn
    rw [hkn] at hkn'
    have hc : cd'.1 = c := by
      cases hx : cd'.1
      cases c
      simp [hx] at hkn' hd' hd ⊢
      omega
    simp only
    rw [hc]

end Placement

/-! ## the parts of the model partition -/

section MkParts
variable (base : Nat) (p : Program)

theorem partitionOf_length : (partitionOf base p).length = p.length := by
  simp [partitionOf]

theorem partitionOf_get {r : Nat} (hr : r < p.length) :
    (partitionOf base p)[r]? = some
      { parts := mkParts (p.rank r) r (p.skel r) base, user := userNames (p.rank r),
        overall := (p.rank r).outputs.map (·.1) } := by
  simp [partitionOf, List.getElem?_map, List.getElem?_range hr]

theorem partitionOf_parts {r : Nat} (hr : r < p.length) :
    (partitionOf base p).parts r = mkParts (p.rank r) r (p.skel r) base := by
  unfold Partition.parts; rw [partitionOf_get base p hr]

theorem partitionOf_user {r : Nat} (hr : r < p.length) :
    (partitionOf base p).user r = userNames (p.rank r) := by
  unfold Partition.user; rw [partitionOf_get base p hr]

theorem partitionOf_overall {r : Nat} (hr : r < p.length) :
    (partitionOf base p).overall r = (p.rank r).outputs.map (·.1) := by
  unfold Partition.overall; rw [partitionOf_get base p hr]

/-- the part built from the `k`-th local part -/
def partAt (s : RankSrc) (r : Nat) (L : List SkelPart) (sp : SkelPart) (k : Nat) : Part :=
  { pid := k, needs := chainNeeds k,
    inputs := partInputs s r L base k,
    outputs := partOutputs s r L base k,
    recvs := sp.recvs.map fun c => ⟨base + nodeOfRecv s r c, c.src, c.tag⟩,
    sends := sp.sends.map fun c => ⟨base + dataOfSend s r c, c.dst, c.tag⟩,
    pure := true }

theorem mem_mkParts {s : RankSrc} {r : Nat} {L : List SkelPart} {q : Part} :
    q ∈ mkParts s r L base ↔ ∃ k sp, L[k]? = some sp ∧ q = partAt base s r L sp k := by
  unfold mkParts
  rw [List.mem_map]
  constructor
  · rintro ⟨⟨sp, k⟩, hm, rfl⟩
    exact ⟨k, sp, List.mem_zipIdx_iff_getElem?.1 hm, rfl⟩
  · rintro ⟨k, sp, hk, rfl⟩
    exact ⟨(sp, k), List.mem_zipIdx_iff_getElem?.2 hk, rfl⟩

theorem mkParts_pids {s : RankSrc} {r : Nat} {L : List SkelPart} :
    (mkParts s r L base).map (·.pid) = List.range' 0 L.length := by
  unfold mkParts
  rw [List.map_map]
  have : ((fun q : Part => q.pid) ∘ fun x : SkelPart × Nat =>
      ({ pid := x.2, needs := chainNeeds x.2, inputs := partInputs s r L base x.2,
         outputs := partOutputs s r L base x.2,
         recvs := x.1.recvs.map fun c => ⟨base + nodeOfRecv s r c, c.src, c.tag⟩,
         sends := x.1.sends.map fun c => ⟨base + dataOfSend s r c, c.dst, c.tag⟩,
         pure := true } : Part)) = Prod.snd := by
    funext x; rfl
  rw [this, List.zipIdx_map_snd]

theorem mkParts_length {s : RankSrc} {r : Nat} {L : List SkelPart} :
    (mkParts s r L base).length = L.length := by
  unfold mkParts; simp

/-- along the linear chain every smaller pid is an ancestor -/
theorem chain_ancestors {s : RankSrc} {r : Nat} {L : List SkelPart} :
    ∀ (f k j : Nat), j < k → k - j ≤ f → k < L.length → j ∈ ancestors (mkParts s r L base) f k
  | 0, k, j, hjk, hf, _ => by omega
  | f + 1, k, j, hjk, hf, hk => by
    have hneed : k - 1 ∈ needsOf (mkParts s r L base) k := by
      unfold needsOf
      rw [List.mem_flatMap]
      obtain ⟨sp, hsp⟩ : ∃ sp, L[k]? = some sp := ⟨L[k], List.getElem?_eq_getElem hk⟩
      refine ⟨partAt base s r L sp k, List.mem_filter.2 ⟨(mem_mkParts base).2 ⟨k, sp, hsp, rfl⟩, by simp [partAt]⟩, ?_⟩
      have : k ≠ 0 := by omega
      simp [partAt, chainNeeds, this]
    simp only [ancestors, List.mem_append, List.mem_flatMap]
    by_cases hj : j = k - 1
    · left; rw [hj]; exact hneed
    · right
      exact ⟨k - 1, hneed, chain_ancestors f (k - 1) j (by omega) (by omega) (by omega)⟩

end MkParts

/-! ## what a part reads -/

section Reads
variable (s : RankSrc) (r : Nat) (L : List SkelPart) (k : Nat)

theorem reads_sound : ∀ (f A : Nat), ∀ a ∈ reads s r L k f A,
    a ∈ RankSrc.closure s.valueCh f A ∧
      (s.isRecv a = true
       ∨ ((promoted s r L).contains a = true ∧ (partOutputArrays s r L k).contains a = false)
       ∨ ((∃ n, s.kind a = .input n)
          ∧ ¬ ((promoted s r L).contains a = true ∧ (partOutputArrays s r L k).contains a = false)))
  | 0, _, a, h => by simp [reads] at h
  | f + 1, A, a, h => by
    unfold reads at h
    by_cases h1 : s.isRecv A = true
    · rw [if_pos h1] at h
      have : a = A := by simpa using h
      subst this
      exact ⟨closure_self _ _ _, Or.inl h1⟩
    · rw [if_neg h1] at h
      by_cases h2 : (!(partOutputArrays s r L k).contains A && (promoted s r L).contains A) = true
      · rw [if_pos h2] at h
        have : a = A := by simpa using h
        subst this
        simp only [Bool.and_eq_true, Bool.not_eq_true'] at h2
        exact ⟨closure_self _ _ _, Or.inr (Or.inl ⟨h2.2, h2.1⟩)⟩
      · rw [if_neg h2] at h
        cases hk : s.kind A with
        | input n =>
          simp only [hk] at h
          have : a = A := by simpa using h
          subst this
          refine ⟨closure_self _ _ _, Or.inr (Or.inr ⟨⟨n, hk⟩, ?_⟩)⟩
          intro ⟨hp1, hp2⟩
          apply h2
          rw [hp1, hp2]; rfl
        | data =>
          simp only [hk] at h
          have hch : s.valueCh A = [] := by simp [RankSrc.valueCh, hk]
          simp [hch] at h
        | recv src tag =>
          exfalso; apply h1; simp [RankSrc.isRecv, hk]
        | op args =>
          simp only [hk] at h
          obtain ⟨c, hc, hac⟩ := List.mem_flatMap.1 h
          obtain ⟨h3, h4⟩ := reads_sound f c a hac
          refine ⟨?_, h4⟩
          simp only [RankSrc.closure, List.mem_cons, List.mem_flatMap]
          exact Or.inr ⟨c, hc, h3⟩
        | send d dst tag pas =>
          simp only [hk] at h
          obtain ⟨c, hc, hac⟩ := List.mem_flatMap.1 h
          obtain ⟨h3, h4⟩ := reads_sound f c a hac
          refine ⟨?_, h4⟩
          simp only [RankSrc.closure, List.mem_cons, List.mem_flatMap]
          exact Or.inr ⟨c, hc, h3⟩

/-- the root of a read walk that is a receive reads exactly itself -/
theorem reads_recv_root {f A a : Nat} (hA : s.isRecv A = true) (h : a ∈ reads s r L k (f + 1) A) : a = A := by
  unfold reads at h
  rw [if_pos hA] at h
  simpa using h

end Reads

/-! ## the model partition satisfies what the executor needs -/

namespace RankSrc
variable (s : RankSrc)

theorem kind_of_node (hn : s.ids.Nodup) {n : PNode} (h : n ∈ s.nodes) : s.kind n.id = n.kind := by
  unfold kind get
  cases hf : s.nodes.find? (fun m => m.id == n.id) with
  | none =>
    have := List.find?_eq_none.1 hf n h
    simp at this
  | some m =>
    have hm := List.mem_of_find?_eq_some hf
    have hid : m.id = n.id := by simpa using List.find?_some hf
    have : m = n := eq_of_map_eq_of_nodup PNode.id hn hm h hid
    rw [this]

theorem recvArrays_isRecv (hn : s.ids.Nodup) {r a : Nat} (h : a ∈ s.recvArrays r) : s.isRecv a = true := by
  unfold recvArrays at h
  obtain ⟨⟨c, a'⟩, hm, rfl⟩ := List.mem_map.1 h
  obtain ⟨n, hnm, hid, hk, _⟩ := (s.mem_recvsOf).1 hm
  have := s.kind_of_node hn hnm
  rw [hid] at this
  simp [isRecv, this, hk]

theorem isRecv_recvArrays {r a : Nat} (h : s.isRecv a = true) : a ∈ s.recvArrays r := by
  obtain ⟨src, tag, hk⟩ := s.isRecv_kind h
  unfold recvArrays
  exact List.mem_map.2 ⟨_, s.recv_registered (r := r) hk, rfl⟩

theorem input_userName {a n : Nat} (h : s.kind a = .input n) : n ∈ userNames s := by
  unfold kind at h
  cases hg : s.get a with
  | none => simp [hg] at h
  | some m =>
    simp only [hg] at h
    unfold get at hg
    have hm := List.mem_of_find?_eq_some hg
    unfold userNames
    rw [List.mem_eraseDups, List.mem_filterMap]
    exact ⟨m, hm, by simp [h]⟩

end RankSrc

section WFexecProof
variable (base : Nat) {p : Program} (hp : GoodProgram p) {r : Nat} (hr : r < p.length)
include hp hr

theorem nodeOfRecv_eq {c : CommId} {a : Nat} (h : (c, a) ∈ (p.rank r).recvsOf r) :
    nodeOfRecv (p.rank r) r c = a := by
  unfold nodeOfRecv
  cases hf : ((p.rank r).recvsOf r).find? (fun cd => cd.1 == c) with
  | none =>
    have := List.find?_eq_none.1 hf (c, a) h
    simp at this
  | some cd' =>
    have hm := List.mem_of_find?_eq_some hf
    have hc : cd'.1 = c := by simpa using List.find?_some hf
    have : cd' = (c, a) := eq_of_map_eq_of_nodup (·.1) (hp.recvIdsLocal r) hm h hc
    rw [this]

theorem dataOfSend_mem {c : CommId} (hc : c ∈ p.commGraph.sendIds) (hsrc : c.src = r) :
    ∃ cd ∈ (p.rank r).sendsOf r, cd.1 = c ∧ dataOfSend (p.rank r) r c = cd.2 := by
  obtain ⟨_, d, hd⟩ := sendIds_inv p hc
  rw [hsrc] at hd
  unfold dataOfSend
  cases hf : ((p.rank r).sendsOf r).find? (fun cd => cd.1 == c) with
  | none =>
    have := List.find?_eq_none.1 hf (c, d) hd
    simp at this
  | some cd' =>
    exact ⟨cd', List.mem_of_find?_eq_some hf, by simpa using List.find?_some hf, rfl⟩

/-- membership of a skeleton part's send in the graph -/
theorem skel_send_mem {k : Nat} {sp : SkelPart} (hk : (p.skel r)[k]? = some sp) {c : CommId}
    (hc : c ∈ sp.sends) : c ∈ p.commGraph.sendIds ∧ c.src = r := by
  obtain ⟨_, hqs, _⟩ := mem_partsOf r _ (List.mem_of_getElem? hk)
  rw [hqs] at hc
  obtain ⟨b, hb, hcb, hsrc⟩ := (mem_candSends _ _).1 hc
  exact ⟨(rawBatches_inv hp.valid).mem _ b hb c hcb, hsrc⟩

theorem skel_recv_mem {k : Nat} {sp : SkelPart} (hk : (p.skel r)[k]? = some sp) {c : CommId}
    (hc : c ∈ sp.recvs) : c ∈ p.commGraph.sendIds ∧ c.dst = r := by
  obtain ⟨hqr, _, _⟩ := mem_partsOf r _ (List.mem_of_getElem? hk)
  rw [hqr] at hc
  obtain ⟨_, b, hb, hcb, hdst⟩ := (mem_candRecvs _ _).1 hc
  exact ⟨(rawBatches_inv hp.valid).mem _ b hb c hcb, hdst⟩

/-- level of a part: the batch index it was emitted for -/
def lvlOf (p : Program) (r pid : Nat) : Nat := (((p.skel r)[pid]?).map (·.cand)).getD 0

theorem lvlOf_eq {k : Nat} {sp : SkelPart} (hk : (p.skel r)[k]? = some sp) : lvlOf p r k = sp.cand := by
  simp [lvlOf, hk]

theorem clause_pids : Cl.pidsNodup (partitionOf base p) r := by
  show (((partitionOf base p).parts r).map (·.pid)).Nodup
  rw [partitionOf_parts base p hr, mkParts_pids]
  exact List.nodup_range'

theorem clause_needs : Cl.needsOk (partitionOf base p) (lvlOf p) r := by
  intro q hq x hx
  rw [partitionOf_parts base p hr] at hq ⊢
  obtain ⟨k, sp, hk, rfl⟩ := (mem_mkParts base).1 hq
  simp only [partAt, chainNeeds] at hx ⊢
  by_cases h0 : k = 0
  · simp [h0] at hx
  · rw [if_neg h0] at hx
    have hx' : x = k - 1 := by simpa using hx
    subst hx'
    have hkl : k < (p.skel r).length := (List.getElem?_eq_some_iff.1 hk).1
    have hk1 : k - 1 < (p.skel r).length := by omega
    refine ⟨⟨partAt base (p.rank r) r (p.skel r) (p.skel r)[k - 1] (k - 1),
      (mem_mkParts base).2 ⟨k - 1, _, List.getElem?_eq_getElem hk1, rfl⟩, rfl⟩, ?_⟩
    rw [lvlOf_eq hp hr (List.getElem?_eq_getElem hk1), lvlOf_eq hp hr hk]
    have hpw := partsOf_cand_increasing r p.batches
    rw [List.pairwise_iff_getElem] at hpw
    have := hpw (k - 1) k hk1 hkl (by omega)
    rw [(List.getElem?_eq_some_iff.1 hk).2] at this
    exact this

theorem clause_recv : Cl.recvOk (partitionOf base p) (lvlOf p) r := by
  intro q hq rc hrc
  rw [partitionOf_parts base p hr] at hq
  obtain ⟨k, sp, hk, rfl⟩ := (mem_mkParts base).1 hq
  simp only [partAt, List.mem_map] at hrc
  obtain ⟨c, hc, rfl⟩ := hrc
  obtain ⟨hcs, hdst⟩ := skel_recv_mem hp hr hk hc
  obtain ⟨hsl, _⟩ := sendIds_inv p hcs
  obtain ⟨k', q', hk', hcq', _⟩ := send_part hp hcs
  simp only
  rw [partitionOf_parts base p hsl]
  refine ⟨partAt base (p.rank c.src) c.src (p.skel c.src) q' k',
    (mem_mkParts base).2 ⟨k', q', hk', rfl⟩, ?_, ?_⟩
  · refine ⟨⟨base + dataOfSend (p.rank c.src) c.src c, c.dst, c.tag⟩, ?_, ?_⟩
    · simp only [partAt, List.mem_map]
      exact ⟨c, hcq', rfl⟩
    · exact ⟨hdst, rfl⟩
  · show lvlOf p c.src k' < lvlOf p r k
    rw [lvlOf_eq hp hsl hk', lvlOf_eq hp hr hk]
    exact skel_recv_after_send hp.valid (List.mem_of_getElem? hk') (List.mem_of_getElem? hk) hcq' hc

theorem placeStored_lt (a : Nat) : placeStored (p.rank r) r (p.skel r) a < (p.skel r).length := by
  unfold placeStored
  by_cases h : ((p.rank r).recvArrays r).contains a = true
  · rw [if_pos h]
    have ha : a ∈ (p.rank r).recvArrays r := List.contains_iff_mem.1 h
    unfold RankSrc.recvArrays at ha
    obtain ⟨⟨c, a'⟩, hm, rfl⟩ := List.mem_map.1 ha
    rw [placeRecv_eq hp hr hm]
    obtain ⟨k, q, hkq, _, hpk⟩ := recv_part hp (recv_mem_recvIds p hr hm)
    rw [recvsOf_dst p hm] at hkq hpk
    rw [hpk]; exact (List.getElem?_eq_some_iff.1 hkq).1
  · rw [if_neg h]; exact placeMso_lt hp hr a

theorem clause_overall : Cl.overallProduced (partitionOf base p) r := by
  intro n hn
  rw [partitionOf_overall base p hr] at hn
  rw [partitionOf_parts base p hr]
  obtain ⟨⟨n', a⟩, hm, rfl⟩ := List.mem_map.1 hn
  have hlt := placeStored_lt hp hr a
  unfold allOutputs
  rw [List.mem_flatMap]
  refine ⟨partAt base (p.rank r) r (p.skel r) (p.skel r)[placeStored (p.rank r) r (p.skel r) a] _,
    (mem_mkParts base).2 ⟨_, _, List.getElem?_eq_getElem hlt, rfl⟩, ?_⟩
  simp only [partAt, partOutputs]
  rw [List.mem_eraseDups, List.mem_append]
  left
  exact List.mem_map.2 ⟨(n', a), List.mem_filter.2 ⟨hm, by simp⟩, rfl⟩

theorem clause_sent : Cl.sentAreOutputs (partitionOf base p) r := by
  intro q hq sd hsd
  rw [partitionOf_parts base p hr] at hq
  obtain ⟨k, sp, hk, rfl⟩ := (mem_mkParts base).1 hq
  simp only [partAt, List.mem_map] at hsd ⊢
  obtain ⟨c, hc, rfl⟩ := hsd
  obtain ⟨hcs, hsrc⟩ := skel_send_mem hp hr hk hc
  obtain ⟨cd, hcd, hcd1, hdata⟩ := dataOfSend_mem hp hr hcs hsrc
  simp only [partOutputs]
  rw [List.mem_eraseDups, List.mem_append]
  right
  rw [hdata]
  refine List.mem_map.2 ⟨cd.2, List.mem_filter.2 ⟨List.mem_append_left _ ?_, ?_⟩, rfl⟩
  · unfold RankSrc.sentArrays
    rw [List.mem_eraseDups]
    exact List.mem_map.2 ⟨cd, hcd, rfl⟩
  · have hnr : ((p.rank r).recvArrays r).contains cd.2 = false := by
      apply Bool.eq_false_iff.2
      intro hcon
      have := (p.rank r).recvArrays_isRecv (hp.idsNodup r) (List.contains_iff_mem.1 hcon)
      rw [hp.noForward r cd hcd] at this
      cases this
    have : placeStored (p.rank r) r (p.skel r) cd.2 = k := by
      unfold placeStored
      rw [hnr]
      simp only [Bool.false_eq_true, if_false]
      rw [placeMso_send hp hr hcd, hcd1]
      exact pidx_of_send hp hk hc
    simp [this]

end WFexecProof

section ReadsClause
variable (base : Nat) {p : Program} (hp : GoodProgram p) {r : Nat} (hr : r < p.length)
include hp hr

theorem mem_partOutputArrays {k a : Nat} :
    a ∈ partOutputArrays (p.rank r) r (p.skel r) k ↔
      (a ∈ (p.rank r).outputArrays ∨ a ∈ (p.rank r).sentArrays r ∨ a ∈ promoted (p.rank r) r (p.skel r))
        ∧ placeStored (p.rank r) r (p.skel r) a = k := by
  unfold partOutputArrays
  rw [List.mem_eraseDups, List.mem_filter, List.mem_append, List.mem_append]
  constructor
  · rintro ⟨h, hk⟩
    refine ⟨?_, by simpa using hk⟩
    rcases h with (h | h) | h
    · exact Or.inl h
    · exact Or.inr (Or.inl h)
    · exact Or.inr (Or.inr h)
  · rintro ⟨h, hk⟩
    refine ⟨?_, by simpa using hk⟩
    rcases h with h | h | h
    · exact Or.inl (Or.inl h)
    · exact Or.inl (Or.inr h)
    · exact Or.inr h

theorem promoted_not_recv {a : Nat} (h : a ∈ promoted (p.rank r) r (p.skel r)) :
    ((p.rank r).recvArrays r).contains a = false := by
  unfold promoted at h
  rw [List.mem_eraseDups, List.mem_flatMap] at h
  obtain ⟨x, _, hx⟩ := h
  obtain ⟨hmp, _⟩ := List.mem_filter.1 hx
  -- members of matPreds are materialised
  have : ∀ (f x a : Nat), a ∈ matPreds (p.rank r) r f x → a ∈ (p.rank r).materialized r := by
    intro f
    induction f with
    | zero => intro x a h; simp [matPreds] at h
    | succ f ih =>
      intro x a h
      simp only [matPreds, List.mem_flatMap] at h
      obtain ⟨c, _, hc⟩ := h
      by_cases hm : ((p.rank r).materialized r).contains c = true
      · rw [if_pos hm] at hc
        have : a = c := by simpa using hc
        rw [this]; exact List.contains_iff_mem.1 hm
      · rw [if_neg hm] at hc
        exact ih c a hc
  have hmat := this _ _ _ hmp
  unfold RankSrc.materialized at hmat
  obtain ⟨_, hcond⟩ := List.mem_filter.1 hmat
  simp only [Bool.and_eq_true, Bool.not_eq_true'] at hcond
  exact hcond.1.2

omit hp hr in
theorem readName_promoted {k a : Nat}
    (hprom : (promoted (p.rank r) r (p.skel r)).contains a = true)
    (hnown : (partOutputArrays (p.rank r) r (p.skel r) k).contains a = false) :
    readName (p.rank r) r (p.skel r) base k a = base + a := by
  unfold readName
  cases hka : (p.rank r).kind a with
  | input n =>
    simp only
    rw [hnown, hprom]
    rfl
  | data => rfl
  | recv _ _ => rfl
  | op _ => rfl
  | send _ _ _ _ => rfl

omit hp hr in
theorem readName_input {k a nm : Nat} (hkin : (p.rank r).kind a = .input nm)
    (hnotp : ¬ ((promoted (p.rank r) r (p.skel r)).contains a = true
      ∧ (partOutputArrays (p.rank r) r (p.skel r) k).contains a = false)) :
    readName (p.rank r) r (p.skel r) base k a = nm := by
  unfold readName
  rw [hkin]
  simp only
  have : ¬ ((!(partOutputArrays (p.rank r) r (p.skel r) k).contains a
      && (promoted (p.rank r) r (p.skel r)).contains a) = true) := by
    intro hc
    simp only [Bool.and_eq_true, Bool.not_eq_true'] at hc
    exact hnotp ⟨hc.2, hc.1⟩
  rw [if_neg this]

omit hp hr in
theorem readName_recv {k a src tag : Nat} (hkind : (p.rank r).kind a = .recv src tag) :
    readName (p.rank r) r (p.skel r) base k a = base + a := by
  unfold readName; rw [hkind]

theorem clause_reads : Cl.readsOk (partitionOf base p) r := by
  intro q hq n hn
  rw [partitionOf_user base p hr]
  rw [partitionOf_parts base p hr] at hq ⊢
  obtain ⟨k, sp, hk, rfl⟩ := (mem_mkParts base).1 hq
  have hkl : k < (p.skel r).length := (List.getElem?_eq_some_iff.1 hk).1
  simp only [partAt, partInputs] at hn
  rw [List.mem_eraseDups, List.mem_map] at hn
  obtain ⟨a, ha, rfl⟩ := hn
  obtain ⟨A, hA, haA⟩ := List.mem_flatMap.1 ha
  obtain ⟨hAout, hAk⟩ := (mem_partOutputArrays hp hr).1 hA
  obtain ⟨hclo, hcase⟩ := reads_sound (p.rank r) r (p.skel r) k _ A a haA
  have hsd : a ∈ (p.rank r).structDeps A := (p.rank r).valueDeps_sub_structDeps A a hclo
  -- is the root a received array?
  by_cases hAr : (p.rank r).isRecv A = true
  · -- then it reads itself
    have haeq : a = A := by
      have : (p.rank r).fuel = ((p.rank r).nodes.length) + 1 := rfl
      rw [this] at haA
      exact reads_recv_root (p.rank r) r (p.skel r) k hAr haA
    subst haeq
    obtain ⟨src, tag, hkind⟩ := (p.rank r).isRecv_kind hAr
    have hreg := (p.rank r).recv_registered (r := r) hkind
    right; left
    refine ⟨partAt base (p.rank r) r (p.skel r) sp k, (mem_mkParts base).2 ⟨k, sp, hk, rfl⟩,
      Or.inl rfl, ?_⟩
    -- the receive of `a` is in part k = placeRecv a
    have hpl : placeStored (p.rank r) r (p.skel r) a = p.pidx r ⟨src, r, tag⟩ := by
      unfold placeStored
      rw [List.contains_iff_mem.2 ((p.rank r).isRecv_recvArrays (r := r) hAr)]
      simp only [if_true]
      exact placeRecv_eq hp hr hreg
    obtain ⟨k', q', hk', hcq', hpk'⟩ := recv_part hp (recv_mem_recvIds p hr hreg)
    simp only at hk' hpk'
    have hkk : k' = k := by rw [← hpk', ← hpl, hAk]
    subst hkk
    rw [hk] at hk'
    have := Option.some.inj hk'
    subst this
    rw [readName_recv base hkind]
    simp only [partAt, Part.recvNames, List.map_map, List.mem_map]
    refine ⟨⟨src, r, tag⟩, hcq', ?_⟩
    simp [nodeOfRecv_eq hp hr hreg]
  · -- a computed array: placed by `placeMso`
    have hAnr : ((p.rank r).recvArrays r).contains A = false := by
      apply Bool.eq_false_iff.2
      intro hcon
      exact hAr ((p.rank r).recvArrays_isRecv (hp.idsNodup r) (List.contains_iff_mem.1 hcon))
    have hAk' : placeMso (p.rank r) r (p.skel r) A = k := by
      have := hAk
      unfold placeStored at this
      rw [hAnr] at this
      simpa using this
    rcases hcase with hrecv | ⟨hprom, hnown⟩ | ⟨⟨nm, hkin⟩, hnotp⟩
    · -- a receive: received by this or an earlier part
      obtain ⟨src, tag, hkind⟩ := (p.rank r).isRecv_kind hrecv
      have hreg := (p.rank r).recv_registered (r := r) hkind
      have hle := recv_pidx_le_place hp hr hsd hkind
      rw [hAk'] at hle
      obtain ⟨k', q', hk', hcq', hpk'⟩ := recv_part hp (recv_mem_recvIds p hr hreg)
      simp only at hk' hpk'
      rw [hpk'] at hle
      right; left
      refine ⟨partAt base (p.rank r) r (p.skel r) q' k', (mem_mkParts base).2 ⟨k', q', hk', rfl⟩, ?_, ?_⟩
      · unfold sameOrEarlier
        rw [mkParts_length]
        by_cases hkk : k' = k
        · left; simp [partAt, hkk]
        · right
          exact chain_ancestors base _ k k' (by omega) (by omega) hkl
      · rw [readName_recv base hkind]
        simp only [partAt, Part.recvNames, List.map_map, List.mem_map]
        refine ⟨⟨src, r, tag⟩, hcq', ?_⟩
        simp [nodeOfRecv_eq hp hr hreg]
    · -- a promoted array computed in an earlier part
      have hpm : a ∈ promoted (p.rank r) r (p.skel r) := List.contains_iff_mem.1 hprom
      have hanr := promoted_not_recv hp hr hpm
      have hpa : placeStored (p.rank r) r (p.skel r) a = placeMso (p.rank r) r (p.skel r) a := by
        unfold placeStored; rw [hanr]; simp
      have hle : placeMso (p.rank r) r (p.skel r) a ≤ k := by
        rw [← hAk']; exact placeMso_mono hp hr hsd
      have hne : placeMso (p.rank r) r (p.skel r) a ≠ k := by
        intro heq
        have : a ∈ partOutputArrays (p.rank r) r (p.skel r) k :=
          (mem_partOutputArrays hp hr).2 ⟨Or.inr (Or.inr hpm), by rw [hpa, heq]⟩
        rw [List.contains_iff_mem.2 this] at hnown
        cases hnown
      have hjl : placeMso (p.rank r) r (p.skel r) a < (p.skel r).length := by omega
      right; right
      refine ⟨partAt base (p.rank r) r (p.skel r) (p.skel r)[placeMso (p.rank r) r (p.skel r) a] _,
        (mem_mkParts base).2 ⟨_, _, List.getElem?_eq_getElem hjl, rfl⟩, ?_, ?_⟩
      · unfold earlier
        rw [mkParts_length]
        simp only [partAt]
        exact chain_ancestors base _ k _ (by omega) (by omega) hkl
      · rw [readName_promoted base hprom hnown]
        simp only [partAt, partOutputs]
        rw [List.mem_eraseDups, List.mem_append]
        right
        exact List.mem_map.2 ⟨a, List.mem_filter.2 ⟨List.mem_append_right _ hpm, by simp [hpa]⟩, rfl⟩
    · -- a user input
      left
      rw [readName_input base hkin hnotp]
      exact (p.rank r).input_userName hkin

end ReadsClause

/-- **The partition the model computes for a well-formed program satisfies everything the
    executor relies on.** -/
theorem partitionOf_wfexec (base : Nat) {p : Program} (hp : GoodProgram p) :
    WFexec (partitionOf base p) := by
  refine ⟨lvlOf p, ?_⟩
  intro r hr
  rw [partitionOf_length] at hr
  exact ⟨clause_pids base hp hr, clause_needs base hp hr, clause_recv base hp hr,
    clause_overall base hp hr, clause_sent base hp hr, clause_reads base hp hr⟩

end Pt.Dist

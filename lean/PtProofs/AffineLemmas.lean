import PtModel.Affine
import Mathlib.Tactic.Linarith
import Mathlib.Tactic.Ring
namespace Pt

def keys (l : List (String × Int)) : List String := l.map (·.1)

theorem sumCoeffs_addTerm (v : String → Nat) (x : String) (c : Int) :
    ∀ l, sumCoeffs v (addTerm x c l) = sumCoeffs v l + c * (v x : Int)
  | [] => by simp [addTerm, sumCoeffs]
  | (y, d) :: rest => by
    unfold addTerm
    by_cases h : y = x
    · subst h; simp only [if_true, sumCoeffs]; ring
    · simp only [h, if_false, sumCoeffs, sumCoeffs_addTerm v x c rest]; ring

theorem sumCoeffs_addTerms (v : String → Nat) :
    ∀ b a, sumCoeffs v (addTerms a b) = sumCoeffs v a + sumCoeffs v b
  | [], a => by simp [addTerms, sumCoeffs]
  | (x, c) :: rest, a => by
    simp only [addTerms, sumCoeffs_addTerms v rest, sumCoeffs_addTerm, sumCoeffs]; ring

theorem sumCoeffs_scale (v : String → Nat) (k : Int) :
    ∀ l : List (String × Int), sumCoeffs v (l.map fun (x, c) => (x, k * c)) = k * sumCoeffs v l
  | [] => by simp [sumCoeffs]
  | (x, c) :: rest => by
    simp only [List.map_cons, sumCoeffs, sumCoeffs_scale v k rest]; ring

theorem Aff.eval_add (a b : Aff) (v : String → Nat) : (a.add b).eval v = a.eval v + b.eval v := by
  simp only [Aff.add, Aff.eval, sumCoeffs_addTerms]; ring

theorem Aff.eval_scale (k : Int) (a : Aff) (v : String → Nat) :
    (a.scale k).eval v = k * a.eval v := by
  simp only [Aff.scale, Aff.eval, sumCoeffs_scale]; ring

/-- normalisation preserves the value at every parameter valuation -/
theorem eval_norm (v : String → Nat) : ∀ e : AExpr, (e.norm).eval v = e.eval v
  | .lit n => by simp [AExpr.norm, Aff.eval, sumCoeffs, AExpr.eval]
  | .param x => by simp [AExpr.norm, Aff.eval, sumCoeffs, AExpr.eval]
  | .add a b => by simp [AExpr.norm, Aff.eval_add, eval_norm v a, eval_norm v b, AExpr.eval]
  | .sub a b => by
    simp only [AExpr.norm, Aff.eval_add, Aff.eval_scale, eval_norm v a, eval_norm v b, AExpr.eval]
    ring
  | .scale k a => by simp [AExpr.norm, Aff.eval_scale, eval_norm v a, AExpr.eval]

/-! ### the normal form has one entry per parameter -/

theorem keys_addTerm (x : String) (c : Int) :
    ∀ l, keys (addTerm x c l) = if x ∈ keys l then keys l else keys l ++ [x]
  | [] => by simp [addTerm, keys]
  | (y, d) :: rest => by
    unfold addTerm
    by_cases h : y = x
    · subst h; simp [keys]
    · have ih := keys_addTerm x c rest
      have hne : ¬ x = y := fun e => h e.symm
      simp only [h, if_false, keys, List.map_cons, List.mem_cons, hne, false_or] at ih ⊢
      rw [ih]; split_ifs with h1 <;> simp [h1]

theorem nodup_addTerm (x : String) (c : Int) (l : List (String × Int)) (h : (keys l).Nodup) :
    (keys (addTerm x c l)).Nodup := by
  rw [keys_addTerm]
  split_ifs with hx
  · exact h
  · exact List.nodup_append.mpr ⟨h, by simp, by
      intro a ha b hb
      simp at hb; subst hb
      intro e; subst e; exact hx ha⟩

theorem nodup_addTerms : ∀ (b a : List (String × Int)), (keys a).Nodup → (keys (addTerms a b)).Nodup
  | [], _, h => by simpa [addTerms] using h
  | (x, c) :: rest, a, h => by
    simp only [addTerms]
    exact nodup_addTerms rest _ (nodup_addTerm x c a h)

theorem keys_scale (k : Int) (l : List (String × Int)) :
    keys (l.map fun (x, c) => (x, k * c)) = keys l := by
  simp [keys, List.map_map, Function.comp_def]

theorem nodup_norm : ∀ e : AExpr, (keys (e.norm).coeffs).Nodup
  | .lit n => by simp [AExpr.norm, keys]
  | .param x => by simp [AExpr.norm, keys]
  | .add a b => by
    simp only [AExpr.norm, Aff.add]; exact nodup_addTerms _ _ (nodup_norm a)
  | .sub a b => by
    simp only [AExpr.norm, Aff.add]; exact nodup_addTerms _ _ (nodup_norm a)
  | .scale k a => by
    simp only [AExpr.norm, Aff.scale, keys_scale]; exact nodup_norm a

/-! ### zero test -/

theorem sumCoeffs_zero_of_all (v : String → Nat) :
    ∀ l : List (String × Int), (l.all fun p => p.2 == 0) = true → sumCoeffs v l = 0
  | [], _ => rfl
  | (x, c) :: rest, h => by
    simp only [List.all_cons, Bool.and_eq_true, beq_iff_eq] at h
    simp [sumCoeffs, h.1, sumCoeffs_zero_of_all v rest h.2]

theorem isZero_sound (a : Aff) (h : a.isZero = true) (v : String → Nat) : a.eval v = 0 := by
  simp only [Aff.isZero, Bool.and_eq_true, beq_iff_eq] at h
  simp [Aff.eval, h.1, sumCoeffs_zero_of_all v _ h.2]

theorem sumCoeffs_const_zero : ∀ l : List (String × Int), sumCoeffs (fun _ => 0) l = 0
  | [] => rfl
  | (x, c) :: rest => by simp [sumCoeffs, sumCoeffs_const_zero rest]

/-- value of the coefficient sum at `N` times the indicator valuation of `x` -/
theorem sumCoeffs_indicator (x : String) (N : Nat) :
    ∀ l : List (String × Int), (keys l).Nodup → ∀ c, (x, c) ∈ l →
      sumCoeffs (fun y => if y = x then N else 0) l = c * N
  | [], _, _, hm => by simp at hm
  | (y, d) :: rest, hn, c, hm => by
    simp only [keys, List.map_cons, List.nodup_cons] at hn
    simp only [List.mem_cons, Prod.mk.injEq] at hm
    rcases hm with ⟨rfl, rfl⟩ | hm
    · -- x is the head; it does not occur in the rest
      have hrest : sumCoeffs (fun y => if y = x then N else 0) rest = 0 := by
        induction rest with
        | nil => rfl
        | cons p ps ih =>
          obtain ⟨z, e⟩ := p
          have hz : z ≠ x := by
            intro e'; subst e'; exact hn.1 (by simp)
          have : ¬ x ∈ List.map (·.1) ps := fun hmem => hn.1 (by simp [hmem])
          have hnd : (List.map (·.1) ps).Nodup := by
            have := hn.2; simp only [List.map_cons, List.nodup_cons] at this; exact this.2
          simp [sumCoeffs, hz, ih ⟨this, hnd⟩]
      simp [sumCoeffs, hrest]
    · have hy : y ≠ x := by
        intro e; subst e
        exact hn.1 (List.mem_map.mpr ⟨(y, c), hm, rfl⟩)
      simp [sumCoeffs, hy, sumCoeffs_indicator x N rest hn.2 c hm]

theorem isZero_complete (a : Aff) (hn : (keys a.coeffs).Nodup)
    (h : ∀ v : String → Nat, a.eval v = 0) : a.isZero = true := by
  have hc : a.const = 0 := by
    have := h (fun _ => 0)
    simpa [Aff.eval, sumCoeffs_const_zero] using this
  simp only [Aff.isZero, Bool.and_eq_true, beq_iff_eq, hc, List.all_eq_true, true_and]
  intro p hp
  obtain ⟨x, c⟩ := p
  have := h (fun y => if y = x then 1 else 0)
  simp only [Aff.eval, hc, sumCoeffs_indicator x 1 _ hn c hp] at this
  simpa using this

/-! ### sign test -/

theorem sumCoeffs_nonneg (v : String → Nat) :
    ∀ l : List (String × Int), (l.all fun p => decide (0 ≤ p.2)) = true → 0 ≤ sumCoeffs v l
  | [], _ => by simp [sumCoeffs]
  | (x, c) :: rest, h => by
    simp only [List.all_cons, Bool.and_eq_true, decide_eq_true_eq] at h
    have := sumCoeffs_nonneg v rest h.2
    have : 0 ≤ c * (v x : Int) := Int.mul_nonneg h.1 (by omega)
    simp only [sumCoeffs]; omega

theorem nonNeg_sound (a : Aff) (h : a.nonNeg = true) (v : String → Nat) : 0 ≤ a.eval v := by
  simp only [Aff.nonNeg, Bool.and_eq_true, decide_eq_true_eq] at h
  have := sumCoeffs_nonneg v _ h.2
  simp only [Aff.eval]; omega

theorem nonNeg_complete (a : Aff) (hn : (keys a.coeffs).Nodup)
    (h : ∀ v : String → Nat, 0 ≤ a.eval v) : a.nonNeg = true := by
  have hc : 0 ≤ a.const := by
    have := h (fun _ => 0)
    simpa [Aff.eval, sumCoeffs_const_zero] using this
  simp only [Aff.nonNeg, Bool.and_eq_true, decide_eq_true_eq, hc, List.all_eq_true, true_and]
  intro p hp
  obtain ⟨x, c⟩ := p
  have := h (fun y => if y = x then (a.const + 1).toNat else 0)
  simp only [Aff.eval, sumCoeffs_indicator x _ _ hn c hp] at this
  by_contra hneg
  have hc' : c ≤ -1 := by simp at hneg; omega
  have hN : ((a.const + 1).toNat : Int) = a.const + 1 := by omega
  rw [hN] at this
  nlinarith

end Pt

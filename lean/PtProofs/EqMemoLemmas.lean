/-
  Soundness of the memoised comparison over DAG heaps (`cmpF` / `eqMemo` of
  `PtModel.Eq`, the model of `EqualityComparer.rec` with its id-pair cache and
  identity shortcut): whatever the sharing, it returns what the plain recursive
  comparer returns on the tree unfoldings.  Core Lean only.
-/
import PtProofs.EqLemmas
namespace Pt.EqM

/-! ## unfolding: the fuel is never exhausted on a well-formed heap -/

theorem unfoldList_congr {r1 r2 : Nat → Term} :
    ∀ cs : List Nat, (∀ c ∈ cs, r1 c = r2 c) → unfoldList r1 cs = unfoldList r2 cs
  | [], _ => rfl
  | c :: cs, h => by
    simp only [unfoldList]
    rw [h c (by simp), unfoldList_congr cs (fun d hd => h d (by simp [hd]))]

theorem unfoldKids_congr {r1 r2 : Nat → Term} :
    ∀ ks : List (String × List Nat), (∀ f cs, (f, cs) ∈ ks → ∀ c ∈ cs, r1 c = r2 c) →
      unfoldKids r1 ks = unfoldKids r2 ks
  | [], _ => rfl
  | (f, cs) :: ks, h => by
    simp only [unfoldKids]
    rw [unfoldList_congr cs (h f cs (by simp)),
      unfoldKids_congr ks (fun g ds hg => h g ds (by simp [hg]))]

theorem unfoldF_fuel {h : Heap} (hw : h.WF) :
    ∀ (f1 f2 i : Nat), i < f1 → i < f2 → unfoldF h f1 i = unfoldF h f2 i
  | 0, _, _, h1, _ => by omega
  | _ + 1, 0, _, _, h2 => by omega
  | f1 + 1, f2 + 1, i, h1, h2 => by
    simp only [unfoldF]
    cases hn : h[i]? with
    | none => rfl
    | some n =>
      simp only
      rw [unfoldKids_congr n.kids]
      intro f cs hf c hc
      have hlt := hw i n hn f cs hf c hc
      exact unfoldF_fuel hw f1 f2 c (by omega) (by omega)

/-- one unfolding step -/
theorem unfold_step {h : Heap} (hw : h.WF) {i : Nat} {n : HNode} (hn : h[i]? = some n) :
    unfold h i = .node n.kind n.attrs (unfoldKids (unfold h) n.kids) := by
  simp only [unfold, unfoldF, hn]
  rw [unfoldKids_congr n.kids]
  intro f cs hf c hc
  have hlt := hw i n hn f cs hf c hc
  exact unfoldF_fuel hw i (c + 1) c hlt (by omega)

/-! ## memo invariant -/

/-- every memo entry is the truth -/
def MemoOK (S : Nat → Nat → Bool) (m : Memo) : Prop :=
  ∀ i j b, m.lookup (i, j) = some b → b = S i j

theorem MemoOK.nil (S : Nat → Nat → Bool) : MemoOK S [] := by
  intro i j b h; simp at h

theorem MemoOK.cons {S : Nat → Nat → Bool} {m : Memo} (hm : MemoOK S m) (i j : Nat) :
    MemoOK S (((i, j), S i j) :: m) := by
  intro i' j' b h
  simp only [List.lookup_cons] at h
  by_cases hk : ((i', j') == (i, j)) = true
  · simp only [hk] at h
    have : (i', j') = (i, j) := by simpa using hk
    cases this
    cases h; rfl
  · simp only [hk] at h
    exact hm i' j' b h

/-- what a sound recursive comparer provides on a given pair -/
def RecSound (S : Nat → Nat → Bool) (rec : Nat → Nat → Memo → Bool × Memo) (c d : Nat) : Prop :=
  ∀ m, MemoOK S m → (rec c d m).1 = S c d ∧ MemoOK S (rec c d m).2

theorem cmpList_sound {tbl : Tbl} {S : Nat → Nat → Bool} {T1 T2 : Nat → Term}
    (hS : ∀ c d, S c d = eqStruct tbl (T1 c) (T2 d))
    (rec : Nat → Nat → Memo → Bool × Memo) :
    ∀ (is js : List Nat) (m : Memo),
      (∀ c ∈ is, ∀ d ∈ js, RecSound S rec c d) → MemoOK S m →
      (cmpList rec is js m).1 = eqList tbl (unfoldList T1 is) (unfoldList T2 js)
        ∧ MemoOK S (cmpList rec is js m).2
  | [], [], m, _, hm => by simp [cmpList, unfoldList, eqList, hm]
  | [], _ :: _, m, _, hm => by simp [cmpList, unfoldList, eqList, hm]
  | _ :: _, [], m, _, hm => by simp [cmpList, unfoldList, eqList, hm]
  | i :: is, j :: js, m, hrec, hm => by
    have h0 := hrec i (by simp) j (by simp) m hm
    have ih := fun m1 (hm1 : MemoOK S m1) =>
      cmpList_sound hS rec is js m1
        (fun c hc d hd => hrec c (by simp [hc]) d (by simp [hd])) hm1
    simp only [cmpList, unfoldList, eqList]
    cases hr : rec i j m with
    | mk b m1 =>
      rw [hr] at h0
      simp only at h0
      obtain ⟨hb, hm1⟩ := h0
      rw [← hS i j, ← hb]
      cases b with
      | true => simpa using ih m1 hm1
      | false => simpa using hm1

theorem cmpKids_sound {tbl : Tbl} {S : Nat → Nat → Bool} {T1 T2 : Nat → Term}
    (hS : ∀ c d, S c d = eqStruct tbl (T1 c) (T2 d))
    (rec : Nat → Nat → Memo → Bool × Memo) (fs : List String) :
    ∀ (k1 k2 : List (String × List Nat)) (m : Memo),
      (∀ f cs, (f, cs) ∈ k1 → ∀ g ds, (g, ds) ∈ k2 → ∀ c ∈ cs, ∀ d ∈ ds, RecSound S rec c d) →
      MemoOK S m →
      (cmpKids rec fs k1 k2 m).1 = eqKids tbl fs (unfoldKids T1 k1) (unfoldKids T2 k2)
        ∧ MemoOK S (cmpKids rec fs k1 k2 m).2
  | [], [], m, _, hm => by simp [cmpKids, unfoldKids, eqKids, hm]
  | [], _ :: _, m, _, hm => by simp [cmpKids, unfoldKids, eqKids, hm]
  | _ :: _, [], m, _, hm => by simp [cmpKids, unfoldKids, eqKids, hm]
  | (f, cs) :: r, (g, ds) :: s, m, hrec, hm => by
    have ih := fun m1 (hm1 : MemoOK S m1) =>
      cmpKids_sound hS rec fs r s m1
        (fun f' cs' hf' g' ds' hg' => hrec f' cs' (by simp [hf']) g' ds' (by simp [hg'])) hm1
    have hl := cmpList_sound hS rec cs ds m
      (fun c hc d hd => hrec f cs (by simp) g ds (by simp) c hc d hd) hm
    simp only [cmpKids, unfoldKids, eqKids]
    by_cases hfg : (f == g) = true
    · simp only [hfg, if_true, Bool.true_and]
      by_cases hc : fs.contains f = true
      · simp only [hc, if_true, Bool.not_true, Bool.false_or]
        cases hr : cmpList rec cs ds m with
        | mk b m1 =>
          rw [hr] at hl
          simp only at hl
          obtain ⟨hb, hm1⟩ := hl
          rw [← hb]
          cases b with
          | true => simpa using ih m1 hm1
          | false => simpa using hm1
      · have hc' : fs.contains f = false := by simpa using hc
        simp only [hc', Bool.false_eq_true, if_false, Bool.not_false, Bool.true_or, Bool.true_and]
        exact ih m hm
    · have hfg' : (f == g) = false := by simpa using hfg
      simp [hfg', hm]

/-! ## the memoised comparer is sound -/

theorem cmpF_sound (tbl : Tbl) (same : Bool) {h1 h2 : Heap} (hw1 : h1.WF) (hw2 : h2.WF)
    (hsame : same = true → h1 = h2) :
    ∀ (fuel i j : Nat), i < fuel → j < fuel → i < h1.length → j < h2.length →
      RecSound (fun c d => eqStruct tbl (unfold h1 c) (unfold h2 d))
        (cmpF tbl same h1 h2 fuel) i j
  | 0, _, _, hi, _, _, _ => by omega
  | fuel + 1, i, j, hi, hj, hli, hlj => by
    intro m hm
    simp only [cmpF]
    by_cases hs : (same && i == j) = true
    · -- identity shortcut: reflexivity
      simp only [hs, if_true]
      simp only [Bool.and_eq_true, _root_.beq_iff_eq] at hs
      obtain ⟨hs1, hij⟩ := hs
      have := hsame hs1
      subst this hij
      exact ⟨(eqStruct_refl tbl _).symm, hm⟩
    · simp only [hs]
      cases hlk : m.lookup (i, j) with
      | some b =>
        simp only [Bool.false_eq_true, if_false]
        exact ⟨hm i j b hlk, hm⟩
      | none =>
        simp only [Bool.false_eq_true, if_false]
        have hn1 : h1[i]? = some h1[i] := List.getElem?_eq_getElem hli
        have hn2 : h2[j]? = some h2[j] := List.getElem?_eq_getElem hlj
        rw [hn1, hn2]
        simp only
        -- soundness of the recursive calls on all children
        have hrec : ∀ f cs, (f, cs) ∈ h1[i].kids → ∀ g ds, (g, ds) ∈ h2[j].kids →
            ∀ c ∈ cs, ∀ d ∈ ds,
              RecSound (fun c d => eqStruct tbl (unfold h1 c) (unfold h2 d))
                (cmpF tbl same h1 h2 fuel) c d := by
          intro f cs hf g ds hg c hc d hd
          have hci := hw1 i _ hn1 f cs hf c hc
          have hdj := hw2 j _ hn2 g ds hg d hd
          exact cmpF_sound tbl same hw1 hw2 hsame fuel c d (by omega) (by omega)
            (by omega) (by omega)
        have hk := cmpKids_sound (tbl := tbl)
          (S := fun c d => eqStruct tbl (unfold h1 c) (unfold h2 d))
          (T1 := unfold h1) (T2 := unfold h2) (fun _ _ => rfl)
          (cmpF tbl same h1 h2 fuel) (tbl h1[i].kind) h1[i].kids h2[j].kids m hrec hm
        rw [unfold_step hw1 hn1, unfold_step hw2 hn2]
        simp only [eqStruct]
        by_cases hka : (h1[i].kind == h2[j].kind
            && eqAttrs (tbl h1[i].kind) h1[i].attrs h2[j].attrs) = true
        · simp only [hka, if_true, Bool.true_and]
          refine ⟨hk.1, ?_⟩
          have := MemoOK.cons hk.2 i j
          simp only [unfold_step hw1 hn1, unfold_step hw2 hn2, eqStruct, hka,
            Bool.true_and] at this
          rw [hk.1]
          exact this
        · have hka' : (h1[i].kind == h2[j].kind
              && eqAttrs (tbl h1[i].kind) h1[i].attrs h2[j].attrs) = false := by simpa using hka
          simp only [hka', Bool.false_eq_true, if_false, Bool.false_and]
          refine ⟨trivial, ?_⟩
          have := MemoOK.cons hm i j
          simp only [unfold_step hw1 hn1, unfold_step hw2 hn2, eqStruct, hka',
            Bool.false_and] at this
          exact this

/-! ## the decidable well-formedness test implies `Heap.WF` -/

theorem Heap.WF_of_wfB {h : Heap} (hb : h.wfB = true) : h.WF := by
  intro i n hn f cs hf c hc
  have hi : i < h.length := by
    rcases List.getElem?_eq_some_iff.1 hn with ⟨hi, _⟩
    exact hi
  simp only [Heap.wfB, List.all_eq_true, List.mem_range] at hb
  have := hb i hi
  rw [hn] at this
  simp only [List.all_eq_true, decide_eq_true_eq] at this
  exact this (f, cs) hf c hc

/-- **memoisation is sound under sharing**: for well-formed heaps the memoised,
    identity-shortcutting comparison of two nodes equals the plain recursive
    comparison of their tree unfoldings. -/
theorem eqMemo_eq_eqStruct_unfold (tbl : Tbl) (same : Bool) {h1 h2 : Heap}
    (hw1 : h1.WF) (hw2 : h2.WF) (hsame : same = true → h1 = h2)
    {i j : Nat} (hi : i < h1.length) (hj : j < h2.length) :
    eqMemo tbl same h1 h2 i j = eqStruct tbl (unfold h1 i) (unfold h2 j) := by
  have := cmpF_sound tbl same hw1 hw2 hsame (max i j + 1) i j (by omega) (by omega) hi hj
    [] (MemoOK.nil _)
  exact this.1

end Pt.EqM

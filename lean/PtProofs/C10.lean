/-
  Property C10 — mismatched or cyclic communication is diagnosed, never partitioned.
  Property theorems only; proofs live in DistGraph.

  Model (PtModel.Dist): the communication graph of a multi-rank program (`CommGraph`: the
  sends with the receives their payload depends on, and the receives), the predicate `Valid`
  of the property statement, and `diagnose` — the union of what
  `find_distributed_partition` raises on any rank and `verify_distributed_partition` raises
  on the root, in the order the real code reaches the checks.  The tie to the real code
  (exception class per rank vs `diagnose` / `findOutcome` / `verifyOutcome` for every single
  fault at every communication operation) is harness/props/c10.py.
-/
import PtProofs.DistGraph
import PtProofs.VerifyLemmas
namespace Pt.Dist

/-- **A correct computation is never rejected** (by the modelled checks). -/
theorem diagnose_sound {g : CommGraph} (h : Valid g) : diagnose g = .ok () :=
  diagnose_sound_lemma h

/-- **Every malformed computation is diagnosed, with a class that names a clause that is
    really violated**: self-send/receive, duplicate send, duplicate receive, cyclic
    dependency, send without receive, receive without send. -/
theorem diagnose_complete {g : CommGraph} (h : ¬ Valid g) :
    ∃ d, diagnose g = .error d ∧ Violates g d :=
  diagnose_complete_lemma h

/-- the class list the tie compares raised exceptions against is exactly the violated clauses -/
theorem violated_exact {g : CommGraph} {d : Diag} : d ∈ violated g ↔ Violates g d :=
  mem_violated_iff_lemma

/-- the executable cycle test is exact for `Acyclic` (existence of a ranking) -/
theorem cyclic_exact {g : CommGraph} : cyclic g = true ↔ ¬ Acyclic g :=
  cyclic_iff

/-- chains of dependencies among communication operations -/
inductive DepPath (g : CommGraph) : CommId → CommId → Prop where
  | one {c d : CommId} : d ∈ g.deps c → DepPath g c d
  | more {c d e : CommId} : d ∈ g.deps c → DepPath g d e → DepPath g c e

/-- `Acyclic` (a ranking exists) rules out every dependency cycle. -/
theorem acyclic_no_cycle {g : CommGraph} (h : Acyclic g) (c : CommId) : ¬ DepPath g c c := by
  obtain ⟨lvl, hl⟩ := h
  have hstep : ∀ {c d : CommId}, d ∈ g.deps c → lvl d < lvl c := by
    intro c d hd
    obtain ⟨s, hs, hid, hds⟩ := mem_deps_iff.1 hd
    rw [← hid]; exact hl s hs d hds
  have hpath : ∀ {c d : CommId}, DepPath g c d → lvl d < lvl c := by
    intro c d hp
    induction hp with
    | one hd => exact hstep hd
    | more hd _ ih => exact Nat.lt_trans ih (hstep hd)
  intro hp
  exact Nat.lt_irrefl _ (hpath hp)

/-! ### partition-level inputs: the model of `verify_distributed_partition` (PtModel.Verify) -/

/-- a diagnostic class is listed by the model iff the clause it names is violated -/
theorem diagnose_partition_exact (P : Partition) (pin : PinOf) {d : VDiag} :
    d ∈ verifyViolated P pin ↔ VViolates P pin d :=
  verifyViolated_exact P pin

/-- **an acceptable partition gets no diagnostic** (when the needed pids name existing parts) -/
theorem diagnose_partition_sound (P : Partition) (pin : PinOf) (hd : VDepsAreParts P pin)
    (h : VerifyOK P pin) : verifyViolated P pin = [] :=
  verify_model_sound P pin hd h

/-- **a partition without diagnostic is acceptable**: consistent names, no duplicate send /
    receive, every receive has a send and vice versa, the parts admit a ranking -/
theorem diagnose_partition_complete (P : Partition) (pin : PinOf) (h : verifyViolated P pin = []) :
    VerifyOK P pin :=
  verify_model_complete P pin h

/-! ## non-vacuity -/

/-- rank 0 sends name 1 (tag 7) to rank 1, which receives it as name 2 -/
def exVP : Partition :=
  [ { parts := [{ pid := 0, needs := [], inputs := [0], outputs := [1], recvs := [],
                  sends := [⟨1, 1, 7⟩] }], user := [0], overall := [1] },
    { parts := [{ pid := 0, needs := [], inputs := [2], outputs := [3], recvs := [⟨2, 0, 7⟩],
                  sends := [] }], user := [], overall := [3] } ]
def exPin : PinOf := fun r _ => if r = 1 then [2] else []

example : verifyViolated exVP exPin = [] := by decide
example : VerifyOK exVP exPin := diagnose_partition_complete exVP exPin (by decide)
example : VDepsAreParts exVP exPin := by unfold VDepsAreParts; decide
/-- the same partition with the send duplicated deserves `DuplicateSendError` (and only that) -/
example : verifyViolated
    [ { parts := [{ pid := 0, needs := [], inputs := [0], outputs := [1], recvs := [],
                    sends := [⟨1, 1, 7⟩, ⟨1, 1, 7⟩] }], user := [0], overall := [1] },
      { parts := [{ pid := 0, needs := [], inputs := [2], outputs := [3], recvs := [⟨2, 0, 7⟩],
                    sends := [] }], user := [], overall := [3] } ] exPin = [.dupSend] := by decide


/-- ping-pong: rank 0 sends (tag 7) to rank 1, which answers (tag 8) with data depending on it -/
def exG : CommGraph :=
  { sends := [⟨0, 1, 7, []⟩, ⟨1, 0, 8, [(0, 7)]⟩], recvs := [⟨1, 0, 7⟩, ⟨0, 1, 8⟩] }

example : Valid exG := by
  refine ⟨by decide, by decide, by decide, by decide, by decide, by decide, ?_⟩
  exact acyclic_of_cyclic_false (by decide)

/-- the verdict as a comparable value -/
def verdict (g : CommGraph) : Option Diag :=
  match diagnose g with
  | .ok _ => none
  | .error d => some d

example : verdict exG = none := by decide

/-- closing the cycle (the first payload now depends on the answer) is not valid -/
def exBad : CommGraph :=
  { sends := [⟨0, 1, 7, [(1, 8)]⟩, ⟨1, 0, 8, [(0, 7)]⟩], recvs := [⟨1, 0, 7⟩, ⟨0, 1, 8⟩] }

example : verdict exBad = some .cycle := by decide
example : ¬ Valid exBad := fun h => by
  have h1 := diagnose_sound h
  have h2 : verdict exBad = some .cycle := by decide
  simp [verdict, h1] at h2
example : DepPath exBad ⟨0, 1, 7⟩ ⟨0, 1, 7⟩ :=
  .more (d := ⟨1, 0, 8⟩) (by decide) (.one (by decide))

end Pt.Dist

/-
  Slice normalisation: pytato's `_normalize_slice` / `_normalized_slice_len`
  against CPython's `PySlice_AdjustIndices`.
-/
import PtModel.Slice
import Mathlib.Tactic.Linarith
namespace Pt

theorem pyMod_of_nonneg_lt {b n : Int} (h0 : 0 ≤ b) (h1 : b < n) : pyMod b n = b := by
  unfold pyMod
  rw [Int.fmod_eq_emod_of_nonneg _ (by omega)]
  exact Int.emod_eq_of_lt h0 h1

theorem pyMod_of_neg_ge {b n : Int} (h0 : b < 0) (h1 : -n ≤ b) : pyMod b n = b + n := by
  unfold pyMod
  rw [Int.fmod_eq_emod_of_nonneg _ (by omega)]
  rw [← Int.add_emod_right]
  exact Int.emod_eq_of_lt (by omega) (by omega)

theorem pyMod_nonneg_lt {a n : Int} (hn : 0 < n) : 0 ≤ pyMod a n ∧ pyMod a n < n := by
  unfold pyMod
  rw [Int.fmod_eq_emod_of_nonneg _ (by omega)]
  exact ⟨Int.emod_nonneg _ (by omega), Int.emod_lt_of_pos _ hn⟩

theorem normBound_eq_cpy (b step n : Int) (hn : 0 ≤ n) (hs : step ≠ 0) :
    ptNormBound b step n = cpyAdjustBound b step n := by
  unfold ptNormBound cpyAdjustBound
  by_cases h1 : -n ≤ b ∧ b < n
  · rw [if_pos h1]
    by_cases hb : b < 0
    · rw [pyMod_of_neg_ge hb h1.1]; split_ifs <;> omega
    · rw [pyMod_of_nonneg_lt (by omega) h1.2]; split_ifs <;> omega
  · rw [if_neg h1]; split_ifs <;> omega

/-- `_normalize_slice` computes exactly CPython's adjusted slice, for every
    axis length, every start/stop (incl. `None`, negative, past the end) and
    every non-zero step. -/
theorem slice_norm_eq_cpython (n : Int) (hn : 0 ≤ n) (st sp : Option Int) (step : Int)
    (hs : step ≠ 0) : ptNormSlice st sp step n = cpyAdjust st sp step n := by
  unfold ptNormSlice cpyAdjust
  cases st <;> cases sp <;> simp only [normBound_eq_cpy _ _ _ hn hs] <;>
    (congr 1 <;> split_ifs <;> omega)

theorem fdiv_pos_eq_ediv (a b : Int) (hb : 0 < b) : pyDiv a b = a / b := by
  unfold pyDiv
  exact Int.fdiv_eq_ediv_of_nonneg _ (by omega)

theorem ceil_div_shift (d c : Int) (hc : 0 < c) : (d + c - 1) / c = (d - 1) / c + 1 := by
  have : d + c - 1 = (d - 1) + 1 * c := by omega
  rw [this, Int.add_mul_ediv_right _ _ (by omega)]

/-- `_normalized_slice_len` agrees with the length CPython computes, for every
    slice with non-zero step (normalised or not). -/
theorem slice_len_eq_cpython (s : NSlice) (hs : s.step ≠ 0) : ptSliceLen s = cpyLen s := by
  unfold ptSliceLen cpyLen
  rcases Int.lt_or_gt_of_ne hs with hn | hp
  · have e1 : ¬ (s.step > 0) := by omega
    simp only [if_neg e1, if_pos hn]
    by_cases h : s.stop < s.start
    · simp only [if_pos h, if_pos (show s.start - s.stop ≥ 0 by omega)]
      rw [fdiv_pos_eq_ediv _ _ (by omega)]
      have := ceil_div_shift (s.start - s.stop) (-s.step) (by omega)
      have e : s.start - s.stop - s.step - 1 = s.start - s.stop + -s.step - 1 := by omega
      rw [e, this]
    · simp only [if_neg h]
      by_cases h2 : s.start - s.stop ≥ 0
      · simp only [if_pos h2]
        rw [fdiv_pos_eq_ediv _ _ (by omega)]
        have e : s.start - s.stop - s.step - 1 = -s.step - 1 := by omega
        rw [e]
        exact Int.ediv_eq_zero_of_lt (by omega) (by omega)
      · simp only [if_neg h2]
  · have e1 : ¬ (s.step < 0) := by omega
    simp only [if_neg e1, if_pos hp]
    by_cases h : s.start < s.stop
    · simp only [if_pos h, if_pos (show s.stop - s.start ≥ 0 by omega)]
      rw [fdiv_pos_eq_ediv _ _ hp]
      exact ceil_div_shift (s.stop - s.start) s.step hp
    · simp only [if_neg h]
      by_cases h2 : s.stop - s.start ≥ 0
      · simp only [if_pos h2]
        rw [fdiv_pos_eq_ediv _ _ hp]
        have e : s.stop - s.start + s.step - 1 = s.step - 1 := by omega
        rw [e]
        exact Int.ediv_eq_zero_of_lt (by omega) (by omega)
      · simp only [if_neg h2]

theorem slice_len_nonneg (s : NSlice) : 0 ≤ cpyLen s := by
  unfold cpyLen
  split_ifs with h1 h2 h2
  · have : 0 ≤ (s.start - s.stop - 1) / (-s.step) := Int.ediv_nonneg (by omega) (by omega)
    omega
  · omega
  · have : 0 ≤ (s.stop - s.start - 1) / s.step := Int.ediv_nonneg (by omega) (by omega)
    omega
  · omega

/-- bounds established by the adjustment -/
theorem cpyAdjustBound_range (b step n : Int) (hn : 0 ≤ n) :
    (0 < step → 0 ≤ cpyAdjustBound b step n ∧ cpyAdjustBound b step n ≤ n) ∧
    (step < 0 → -1 ≤ cpyAdjustBound b step n ∧ cpyAdjustBound b step n ≤ n - 1) := by
  unfold cpyAdjustBound
  constructor <;> intro h <;> split_ifs <;> omega

/-- Memory safety of slicing (C11) and the heart of its correctness (C02): every
    index `start + step * k`, `0 ≤ k < len`, that a normalised slice visits lies
    inside `[0, n)` — for every axis length, start, stop and non-zero step. -/
theorem slice_indices_inbounds (n : Int) (hn : 0 ≤ n) (st sp : Option Int) (step : Int)
    (hs : step ≠ 0) (k : Int) (hk0 : 0 ≤ k)
    (hk : k < cpyLen (cpyAdjust st sp step n)) :
    0 ≤ (cpyAdjust st sp step n).start + step * k ∧
    (cpyAdjust st sp step n).start + step * k < n := by
  -- ranges of start and stop
  have hstart : (0 < step → 0 ≤ (cpyAdjust st sp step n).start ∧ (cpyAdjust st sp step n).start ≤ n) ∧
      (step < 0 → -1 ≤ (cpyAdjust st sp step n).start ∧ (cpyAdjust st sp step n).start ≤ n - 1) := by
    unfold cpyAdjust
    cases st with
    | none => simp only; constructor <;> intro h <;> split_ifs <;> omega
    | some b => exact cpyAdjustBound_range b step n hn
  have hstop : (0 < step → 0 ≤ (cpyAdjust st sp step n).stop ∧ (cpyAdjust st sp step n).stop ≤ n) ∧
      (step < 0 → -1 ≤ (cpyAdjust st sp step n).stop ∧ (cpyAdjust st sp step n).stop ≤ n - 1) := by
    unfold cpyAdjust
    cases sp with
    | none => simp only; constructor <;> intro h <;> split_ifs <;> omega
    | some b => exact cpyAdjustBound_range b step n hn
  have hstep : (cpyAdjust st sp step n).step = step := by unfold cpyAdjust; rfl
  generalize cpyAdjust st sp step n = s at *
  unfold cpyLen at hk
  rw [hstep] at hk
  by_cases hp : 0 < step
  · rw [if_neg (by omega)] at hk
    by_cases h : s.start < s.stop
    · rw [if_pos h] at hk
      have hk' : k ≤ (s.stop - s.start - 1) / step := by omega
      have := (Int.le_ediv_iff_mul_le hp).mp hk'
      have h1 := hstart.1 hp
      have h2 := hstop.1 hp
      constructor
      · have : 0 ≤ step * k := Int.mul_nonneg (by omega) hk0
        omega
      · nlinarith
    · rw [if_neg h] at hk; omega
  · have hn' : step < 0 := by omega
    rw [if_pos hn'] at hk
    by_cases h : s.stop < s.start
    · rw [if_pos h] at hk
      have hk' : k ≤ (s.start - s.stop - 1) / (-step) := by omega
      have := (Int.le_ediv_iff_mul_le (by omega : 0 < -step)).mp hk'
      have h1 := hstart.2 hn'
      have h2 := hstop.2 hn'
      constructor
      · nlinarith
      · have : step * k ≤ 0 := Int.mul_nonpos_of_nonpos_of_nonneg (by omega) hk0
        omega
    · rw [if_neg h] at hk; omega

end Pt

/-
  Property C13 — the regenerated-table obligation (kept in its own module so that a
  source change that breaks a table row does not hide the general theorems of
  `PtProofs.C13`).
-/
import PtModel.Tables
import PtGen.Children
namespace Pt

/-! ## the regenerated table obligation

  `PtGen.childrenTables` is rebuilt from the live mapper classes on every run.
  Every row — (mapper, node kind) — must list every stored array-valued edge of the
  kind, except what the statement exempts (`scopeExcluded`) and the rows rendered
  from the committed known_findings.json (`known`).  A mapper method that stops
  recursing into a child makes this declaration fail to compile. -/
theorem children_tables_complete : PtGen.childrenTables.complete true = true := by
  decide +kernel


/-- non-vacuity: the table is not empty and has rows with edges to check -/
example : PtGen.childrenTables.mapperKinds.length > 100 := by decide +kernel
example : (PtGen.childrenTables.edgesOf "CSRMatmul").length = 4 := by decide +kernel

end Pt

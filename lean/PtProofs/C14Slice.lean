/-
  Property C14 — the NumPy-like target's slice re-synthesis round-trips.
-/
import PtModel.Slice
import PtProofs.SliceLemmas
namespace Pt

/-- For every normalised slice (any axis length, start, stop, non-zero step) the
    Python slice the target emits, interpreted by CPython's own adjustment
    rules, IS that normalised slice. -/
theorem slice_resynth_roundtrip (s : NSlice) (n : Int) (hn : 0 ≤ n) (h : s.IsNorm n) :
    cpyAdjust (resynthSlice s n).1 (resynthSlice s n).2.1 (resynthSlice s n).2.2 n = s := by
  obtain ⟨start, stop, step⟩ := s
  unfold NSlice.IsNorm at h
  unfold resynthSlice cpyAdjust cpyAdjustBound
  simp only at h ⊢
  rcases h with ⟨hs, h1, h2, h3, h4⟩ | ⟨hs, h1, h2, h3, h4⟩
  · have hs' : ¬ step < 0 := by omega
    simp only [hs, if_true]
    congr 1
    · split_ifs <;> simp_all <;> omega
    · split_ifs <;> simp_all <;> omega
  · have hs' : ¬ step > 0 := by omega
    simp only [hs', if_false]
    congr 1
    · split_ifs <;> simp_all <;> omega
    · split_ifs <;> simp_all <;> omega

/-- hence it selects exactly the same elements, in the same order -/
theorem slice_resynth_selects_same (s : NSlice) (n : Int) (hn : 0 ≤ n) (h : s.IsNorm n) (len : Nat) :
    (cpyAdjust (resynthSlice s n).1 (resynthSlice s n).2.1 (resynthSlice s n).2.2 n).indices len
      = s.indices len := by
  rw [slice_resynth_roundtrip s n hn h]

/-- `_normalize_slice` only produces slices in that range -/
theorem norm_isNorm (st sp : Option Int) (step n : Int) (hn : 0 ≤ n) (hs : step ≠ 0) :
    (ptNormSlice st sp step n).IsNorm n := by
  rw [slice_norm_eq_cpython n hn st sp step hs]
  unfold NSlice.IsNorm cpyAdjust cpyAdjustBound
  rcases Int.lt_or_gt_of_ne hs with h | h
  · right
    cases st <;> cases sp <;> simp only <;> refine ⟨h, ?_, ?_, ?_, ?_⟩ <;> split_ifs <;> omega
  · left
    cases st <;> cases sp <;> simp only <;> refine ⟨h, ?_, ?_, ?_, ?_⟩ <;> split_ifs <;> omega

/-! non-vacuity: the slice that used to be mis-synthesised (x[-10::-1] on length 4) -/
example : (ptNormSlice (some (-10)) none (-1) 4) = ⟨-1, -1, -1⟩ := by decide
example : resynthSlice ⟨-1, -1, -1⟩ 4 = (some (-5), none, -1) := by decide
example : (⟨-1, -1, -1⟩ : NSlice).IsNorm 4 := by unfold NSlice.IsNorm; decide

end Pt

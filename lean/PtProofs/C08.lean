/-
  Property C08 — partitioned distributed execution terminates and is faithful in all
  schedules.  Property theorems only; proofs live in DistLemmas / DistSafety.

  Model (PtModel.Dist): the executor of `distributed/execute.py` as a transition system over
  the `DistributedGraphPart` records of all ranks.  `Step` has two kinds of labels:
  `exec r pid` (a part whose needed parts ran and whose receives completed) and
  `deliver r names` (any non-empty set of this rank's posted receives whose message has been
  sent — what `Waitsome` may report — and only when no part of `r` is ready, as in the real
  loop).  All theorems quantify over EVERY partition satisfying `WFexec` (the part of the
  `DistributedGraphPart` contract the executor relies on; implied by C09's `WF`,
  `wf_implies_wfexec`) (any number of ranks, parts,
  messages), EVERY interleaving of ranks and EVERY `Waitsome` outcome.  The tie to the real
  code (real traces are `Step` paths with equal enabled sets; real partitions pass `checkWF`)
  is the correspondence check in harness/props/c08.py.
-/
import PtProofs.DistSafety
namespace Pt.Dist

variable {V : Type} (sem : Sem V)

/-- **No deadlock, no empty-`Waitsome` spin.**  In every state — reachable or not — of a
    well-formed partition that is not terminal, some step is enabled. -/
theorem progress {P : Partition} (hwf : WFexec P) (s : GState V) (hn : ¬ Terminal P s) :
    ∃ l s', Step sem P s l s' :=
  progress_lemma sem hwf s hn

/-- **Termination.**  Every step strictly decreases
    `mu` = #unexecuted parts + #undelivered receives (summed over the ranks). -/
theorem decreasing {P : Partition} {s s' : GState V} {l : Label} (h : Step sem P s l s') :
    mu P s' < mu P s :=
  decreasing_lemma sem h

/-- executions of `n` steps -/
inductive Path (P : Partition) : GState V → Nat → GState V → Prop where
  | nil (s : GState V) : Path P s 0 s
  | cons {s s' s'' : GState V} {l : Label} {n : Nat} :
      Step sem P s l s' → Path P s' n s'' → Path P s (n + 1) s''

/-- **Every execution is finite**: no execution from `s` is longer than `mu P s`
    (no hypothesis on the partition at all). -/
theorem execution_bounded {P : Partition} {s s' : GState V} {n : Nat} (h : Path sem P s n s') :
    n + mu P s' ≤ mu P s := by
  induction h with
  | nil s => simp
  | cons hstep _ ih =>
    have := decreasing sem hstep
    omega

/-- **No value is read before it is produced or after it has been released.**  In every
    reachable state, a part the executor may run finds all its input names in the context
    (the model releases a name when its reference count drops to zero unless it is an overall
    output name, as execute.py does). -/
theorem inputs_present {P : Partition} (hwf : WFexec P) {s : GState V}
    (hreach : Reachable sem P s) {r : Nat} {p : Part} (hr : r < P.length)
    (hp : p ∈ P.parts r) (hrdy : p.ready (s.rk r)) :
    ∀ n ∈ p.inputs, ((s.rk r).ctx n).isSome :=
  inputs_present_lemma sem hwf hreach hr hp hrdy

/-- **Faithfulness.**  For any part-program semantics `sem` and any solution `ref` of the
    partition's equation system (user inputs = supplied data; an output = its part's program
    applied to the solution restricted to the part's inputs; a received name = the sent name
    of the matching send), every terminal reachable state holds `ref` for every overall
    output of every rank.  (All names of a rank live in one namespace, as in execute.py's
    `context`: if an output carries the name of a user input with a different value, the
    system has no solution and the theorem says nothing — the check compares such programs
    with the global reference by execution.) -/
theorem faithful {P : Partition} (hwf : WFexec P) {ref : Nat → Name → V}
    (hsol : IsSolution sem P ref) {s : GState V} (hreach : Reachable sem P s)
    (hterm : Terminal P s) (r : Nat) (hr : r < P.length) :
    ∀ n ∈ P.overall r, (s.rk r).ctx n = some (ref r n) :=
  faithful_lemma sem hwf hsol hreach hterm r hr

/-- the executable checker run on every real partition is sound for `WFexec` -/
theorem checkWFexec_sound (P : Partition) (h : checkWFexec P = true) : WFexec P :=
  checkWFexec_sound_lemma P h

/-- the full contract of C09 implies `WFexec` -/
theorem wf_implies_wfexec {P : Partition} (h : WF P) : WFexec P :=
  wfexec_of_wf h

/-! ## non-vacuity -/

/-- rank 0 computes name 1 from user input 0 and sends it (tag 7) to rank 1, which receives
    it as name 2 and computes its overall output 3 from it -/
def exP : Partition :=
  [ { parts := [{ pid := 0, needs := [], inputs := [0], outputs := [1], recvs := [],
                  sends := [⟨1, 1, 7⟩] }],
      user := [0], overall := [1] },
    { parts := [{ pid := 0, needs := [], inputs := [2], outputs := [3], recvs := [⟨2, 0, 7⟩],
                  sends := [] }],
      user := [], overall := [3] } ]

def exSem : Sem Nat :=
  { run := fun r _ env _ => if r = 0 then (env 0).getD 0 + 1 else (env 2).getD 0 * 2,
    input := fun _ _ => 5 }

def exRef : Nat → Name → Nat := fun r n =>
  if r = 0 then (if n = 0 then 5 else 6) else (if n = 2 then 6 else 12)

example : checkWF exP = true := by decide +kernel
theorem exP_wf : WFexec exP := checkWFexec_sound exP (by decide +kernel)

/-- the hypothesis of `wf_implies_wfexec` is satisfiable -/
example : WF exP := checkWF_sound_lemma exP (by decide +kernel)

/-- the hypotheses of `progress` hold in the initial state (which is not terminal) -/
example : ¬ Terminal exP (init exSem exP) := by
  intro h
  have := h 0 (by decide) _ (List.mem_cons_self ..)
  simp [init, initR] at this

/-- the hypotheses of `inputs_present` are satisfiable: part 0 of rank 0 is ready initially -/
example : (⟨0, [], [0], [1], [], [⟨1, 1, 7⟩], true⟩ : Part).ready ((init exSem exP).rk 0) := by
  simp [Part.ready, init, initR]

/-- a step exists from the initial state (so `decreasing` / `Path` are not vacuous) -/
example : ∃ l s', Step exSem exP (init exSem exP) l s' :=
  progress exSem exP_wf _ (by
    intro h
    have := h 0 (by decide) _ (List.mem_cons_self ..)
    simp [init, initR] at this)

/-- the equation system of `exP` has a solution (so `faithful` is not vacuous) -/
example : IsSolution exSem exP exRef := by
  refine ⟨?_, ?_, ?_⟩
  · intro r n h
    match r with
    | 0 => simp [Partition.user, exP] at h; subst h; simp [exRef, exSem]
    | 1 => simp [Partition.user, exP] at h
    | r + 2 => simp [Partition.user, exP] at h
  · intro r p hp n hn
    match r with
    | 0 =>
      simp [Partition.parts, exP] at hp; subst hp
      simp at hn; subst hn
      simp [exRef, exSem, restrict]
    | 1 =>
      simp [Partition.parts, exP] at hp; subst hp
      simp at hn; subst hn
      simp [exRef, exSem, restrict]
    | r + 2 => simp [Partition.parts, exP] at hp
  · intro r p hp rc hrc q hq sd hsd hdst htag
    match r with
    | 0 => simp [Partition.parts, exP] at hp; subst hp; simp at hrc
    | 1 =>
      simp [Partition.parts, exP] at hp; subst hp
      simp at hrc; subst hrc
      simp [Partition.parts, exP] at hq; subst hq
      simp at hsd; subst hsd
      simp [exRef]
    | r + 2 => simp [Partition.parts, exP] at hp

end Pt.Dist

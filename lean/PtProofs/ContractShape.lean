/-
  Shape rules of matmul / dot / vdot / pad: the model of /repo's code
  (`PtModel.ContractShape`) equals NumPy's documented rule, stated here
  independently (promotion of 1-d operands, equal core dimensions, broadcast of
  the batch dimensions with `npBroadcast`, removal of the added axes).
-/
import PtModel.ContractShape
import PtProofs.C16ShapeLemmas
namespace Pt
namespace Contract
open Sym

/-! ### helpers -/

theorem mapM_some_of_forall {α β : Type} (f : α → Option β) (g : α → β) : ∀ (l : List α),
    (∀ a ∈ l, f a = some (g a)) → l.mapM f = some (l.map g)
  | [], _ => rfl
  | a :: l, h => by
    simp only [List.mapM_cons, bind, Option.bind]
    rw [h a (by simp), mapM_some_of_forall f g l fun x hx => h x (by simp [hx])]
    rfl

theorem map_getD_range (s : List Nat) : (List.range s.length).map (fun i => s.getD i 1) = s := by
  apply List.ext_getElem
  · simp
  · intro i h1 h2
    simp only [List.length_map, List.length_range] at h1
    simp [List.getD_eq_getElem?_getD, List.getElem?_eq_getElem h1]

theorem ptAxis_one_left (n : Nat) : ptAxis [1, n] = some n := by
  simp only [ptAxis, ptAxisLen]
  by_cases h : n = 1
  · simp [h]
  · simp [h]

theorem ptAxis_one_right (n : Nat) : ptAxis [n, 1] = some n := by
  simp [ptAxis, ptAxisLen]

theorem getD_replicate_one (n i : Nat) : (List.replicate n 1).getD i 1 = 1 := by
  by_cases h : i < n
  · simp [List.getD_eq_getElem?_getD, h]
  · simp [List.getD_eq_getElem?_getD, h]

/-- broadcasting against a 0-d operand keeps the other shape -/
theorem ptBroadcast_nil_left (s : List Nat) : ptBroadcast [[], s] = some s := by
  unfold ptBroadcast
  simp only [List.map_cons, List.map_nil, List.length_nil, List.foldl_cons, List.foldl_nil, Nat.max_zero,
    Nat.zero_max, Pt.padShape, Nat.sub_zero, Nat.sub_self, List.replicate_zero, List.nil_append, List.append_nil]
  rw [mapM_some_of_forall _ (fun i => s.getD i 1)]
  · rw [map_getD_range]
  · intro i _
    rw [getD_replicate_one]; exact ptAxis_one_left _

theorem ptBroadcast_nil_right (s : List Nat) : ptBroadcast [s, []] = some s := by
  unfold ptBroadcast
  simp only [List.map_cons, List.map_nil, List.length_nil, List.foldl_cons, List.foldl_nil, Nat.max_zero,
    Nat.zero_max, Pt.padShape, Nat.sub_zero, Nat.sub_self, List.replicate_zero, List.nil_append, List.append_nil]
  rw [mapM_some_of_forall _ (fun i => s.getD i 1)]
  · rw [map_getD_range]
  · intro i _
    rw [getD_replicate_one]; exact ptAxis_one_right _

theorem npBroadcast_nil_left (s : List Nat) : npBroadcast [[], s] = some s := by
  rw [← ptBroadcast_eq_np']; exact ptBroadcast_nil_left s

theorem npBroadcast_nil_right (s : List Nat) : npBroadcast [s, []] = some s := by
  rw [← ptBroadcast_eq_np']; exact ptBroadcast_nil_right s

theorem take_append_getD (s : List Nat) (i : Nat) (h : i < s.length) :
    s.take i ++ [s.getD i 0] = s.take (i + 1) := by
  rw [List.take_add_one]
  simp [List.getD_eq_getElem?_getD, List.getElem?_eq_getElem h]

theorem mapM_length {α β : Type} (f : α → Option β) : ∀ (l : List α) (r : List β),
    l.mapM f = some r → r.length = l.length
  | [], r, h => by
    simp only [List.mapM_nil, pure, Option.some.injEq] at h
    subst h; rfl
  | a :: l, r, h => by
    simp only [List.mapM_cons, bind, Option.bind] at h
    cases hfa : f a with
    | none => simp [hfa] at h
    | some b =>
      simp only [hfa] at h
      cases hl : l.mapM f with
      | none => simp [hl] at h
      | some bs =>
        simp only [hl, pure, Option.some.injEq] at h
        subst h
        simp [mapM_length f l bs hl]

theorem ptBroadcast_length (a b r : List Nat) (h : ptBroadcast [a, b] = some r) :
    r.length = max a.length b.length := by
  unfold ptBroadcast at h
  have := mapM_length _ _ _ h
  simpa [Nat.max_comm] using this

/-! ### matmul -/

/-- NumPy's documented rule for `matmul`: no 0-d operands; a 1-d first operand is
    promoted to a matrix by PREPENDING a unit axis, a 1-d second operand by
    APPENDING one; the core dimensions must agree (`k = k`); the remaining (batch)
    dimensions broadcast; the added axes are removed from the result -/
def matmulSpec (s1 s2 : List Nat) : Option (List Nat) :=
  if s1.length = 0 ∨ s2.length = 0 then none
  else
    let a := if s1.length = 1 then 1 :: s1 else s1
    let b := if s2.length = 1 then s2 ++ [1] else s2
    if lastD a ≠ last2D b then none
    else (npBroadcast [a.take (a.length - 2), b.take (b.length - 2)]).map fun batch =>
      batch ++ (if s1.length = 1 then [] else [last2D a]) ++ (if s2.length = 1 then [] else [lastD b])

/-- the model of /repo's `matmul` = NumPy's rule: same accept/reject, same shape, all ranks -/
theorem matmul_eq_spec (s1 s2 : List Nat) : matmulShape s1 s2 = matmulSpec s1 s2 := by
  unfold matmulShape matmulSpec
  by_cases h0 : s1.length = 0 ∨ s2.length = 0
  · rw [if_pos h0, if_pos h0]
  rw [if_neg h0, if_neg h0]
  simp only [not_or] at h0
  obtain ⟨h1, h2⟩ := h0
  by_cases l1 : s1.length = 1 <;> by_cases l2 : s2.length = 1
  · -- 1-d @ 1-d
    obtain ⟨k, rfl⟩ := List.length_eq_one_iff.mp l1
    obtain ⟨k2, rfl⟩ := List.length_eq_one_iff.mp l2
    by_cases hk : k = k2
    · subst hk
      have : npBroadcast [[], []] = some [] := by decide
      simp [contractionOk, lastD, last2D, this]
    · simp [contractionOk, lastD, last2D, hk]
  · -- 1-d @ N-d
    obtain ⟨k, rfl⟩ := List.length_eq_one_iff.mp l1
    have hn : s2.length ≥ 2 := by omega
    simp only [List.length_cons, List.length_nil, Nat.zero_add, if_true, l2, if_false, contractionOk, hn,
      lastD, last2D, Nat.reduceSubDiff, Nat.sub_self, List.take_zero, true_and,
      npBroadcast_nil_left, Option.map_some, List.append_nil, beq_iff_eq, Nat.reduceAdd, ne_eq,
      List.getD_cons_succ, List.getD_cons_zero, Nat.add_one_sub_one]
  · -- N-d @ 1-d
    obtain ⟨k2, rfl⟩ := List.length_eq_one_iff.mp l2
    have hn : s1.length ≥ 2 := by omega
    have ht := take_append_getD s1 (s1.length - 2) (by omega)
    have e : s1.length - 2 + 1 = s1.length - 1 := by omega
    rw [e] at ht
    simp only [List.getD_eq_getElem?_getD] at ht
    simp [l1, contractionOk, lastD, last2D, npBroadcast_nil_right, ht]
  · -- N-d @ M-d: batch dimensions broadcast
    have hn1 : s1.length ≥ 2 := by omega
    have hn2 : s2.length ≥ 2 := by omega
    simp only [l1, l2, if_false, contractionOk, hn2, if_true, false_and, and_false, beq_iff_eq, ne_eq]
    by_cases hk : lastD s1 = last2D s2
    · simp only [hk, not_true_eq_false, if_false, ptBroadcast_eq_np']
      congr 1
      funext batch
      simp
    · simp [hk]

/-- a contracted axis is NEVER stretched: contracted lengths that differ are refused,
    also when one of them is 1 (`(3,) @ (1, 3)`, `(2, 1) @ (3, 4)`) -/
theorem matmul_refuses_stretched_contraction (s1 s2 : List Nat)
    (h : lastD s1 ≠ (if s2.length ≥ 2 then last2D s2 else s2.getD 0 0)) : matmulShape s1 s2 = none := by
  unfold matmulShape
  by_cases h0 : s1.length = 0 ∨ s2.length = 0
  · rw [if_pos h0]
  · rw [if_neg h0, if_pos (by simp only [contractionOk, beq_iff_eq]; exact h)]

/-- rank of a matrix product -/
theorem matmul_rank (s1 s2 r : List Nat) (h : matmulShape s1 s2 = some r) :
    r.length = (if s1.length = 1 ∧ s2.length = 1 then 0 else if s1.length = 1 then s2.length - 1
      else if s2.length = 1 then s1.length - 1 else max s1.length s2.length) := by
  unfold matmulShape at h
  split_ifs at h with h0 hc h11 h1 h2
  · simp only [Option.some.injEq] at h; subst h; simp [h11]
  · simp only [Option.some.injEq] at h; subst h
    have hne : ¬ s2.length = 1 := fun e => h11 ⟨h1, e⟩
    simp only [not_or] at h0
    simp only [h1, hne, and_false, if_false, if_true, List.length_append, List.length_take, List.length_cons,
      List.length_nil]
    omega
  · simp only [Option.some.injEq] at h; subst h
    simp only [h1, h2, false_and, and_true, if_false, if_true, List.length_take]
    omega
  · cases hb : ptBroadcast [s1.take (s1.length - 2), s2.take (s2.length - 2)] with
    | none => rw [hb] at h; simp at h
    | some batch =>
      rw [hb] at h
      simp only [Option.map_some, Option.some.injEq] at h
      subst h
      have := ptBroadcast_length _ _ _ hb
      simp only [not_or] at h0
      simp only [h1, h2, false_and, and_false, if_false, List.length_append, List.length_cons, List.length_nil,
        this, List.length_take]
      omega

/-! ### dot -/

/-- NumPy's documented rule for `dot`: a 0-d operand multiplies; `b` 1-d: sum
    product over the last axis of `a` and `b`; else over the last axis of `a` and
    the second-to-last of `b`: `dot(a, b)[i…, j…, n] = Σ a[i…, :] · b[j…, :, n]` -/
def dotSpec (a b : List Nat) : Option (List Nat) :=
  if a.length = 0 then some b
  else if b.length = 0 then some a
  else if b.length = 1 then (if lastD a = b.getD 0 0 then some (a.take (a.length - 1)) else none)
  else if lastD a = last2D b then some (a.take (a.length - 1) ++ b.take (b.length - 2) ++ [lastD b])
  else none

theorem len2 (l : List Nat) (h : l.length = 2) : ∃ x y, l = [x, y] := by
  match l, h with
  | [x, y], _ => exact ⟨x, y, rfl⟩

theorem dot_eq_spec (a b : List Nat) : dotShape a b = dotSpec a b := by
  unfold dotShape dotSpec
  by_cases ha : a.length = 0
  · have : a = [] := List.length_eq_zero_iff.mp ha
    subst this
    simp [ptBroadcast_nil_left]
  by_cases hb : b.length = 0
  · have : b = [] := List.length_eq_zero_iff.mp hb
    subst this
    simp [ha, ptBroadcast_nil_right]
  have ha1 : a.length ≥ 1 := by omega
  have hb1 : b.length ≥ 1 := by omega
  by_cases hb' : b.length = 1
  · obtain ⟨k2, rfl⟩ := List.length_eq_one_iff.mp hb'
    by_cases hk : lastD a = k2
    · by_cases ha' : a.length = 1
      · simp [ha, ha', contractionOk, hk]
      · simp [ha, ha', contractionOk, hk]
    · simp [ha, contractionOk, hk, ha1]
  · have hb2 : b.length ≥ 2 := by omega
    by_cases hk : lastD a = last2D b
    · by_cases h22 : a.length = 2 ∧ b.length = 2
      · obtain ⟨m, k, rfl⟩ := len2 a h22.1
        obtain ⟨k', n, rfl⟩ := len2 b h22.2
        have hkk : k = k' := by simpa [lastD, last2D] using hk
        subst hkk
        have : ptBroadcast [[], []] = some [] := by decide
        simp [matmulShape, contractionOk, lastD, last2D, this]
      · simp [ha, hb, hb', contractionOk, hk, hb2, h22]
    · simp [ha, hb, hb', contractionOk, hk, hb2, ha1, hb1]

/-! ### vdot -/

/-- NumPy: `vdot` flattens both operands; they must have the same number of entries; the result is 0-d -/
def vdotSpec (a b : List Nat) : Option (List Nat) := if a.prod = b.prod then some [] else none

theorem ravel_facts (s : List Nat) : (ravel s).length ≤ 1 ∧ (ravel s).prod = s.prod := by
  unfold ravel
  by_cases h : s.length > 1
  · simp [h]
  · simp [h]; omega

theorem vdot_core (a b : List Nat) (ha : a.length ≤ 1) (hb : b.length ≤ 1) :
    (if a.length ≠ b.length then
        (if (if a.length = 0 then b else a).getD 0 0 = 1 then some [] else none)
      else dotShape a b) = if a.prod = b.prod then some ([] : List Nat) else none := by
  have hbc : ptBroadcast [[], []] = some [] := by decide
  match a, b, ha, hb with
  | [], [], _, _ => simp [dotShape, hbc]
  | [], [y], _, _ =>
    by_cases h : y = 1
    · simp [h]
    · have : ¬ 1 = y := fun e => h e.symm
      simp [h, this]
  | [x], [], _, _ =>
    by_cases h : x = 1 <;> simp [h]
  | [x], [y], _, _ =>
    by_cases h : x = y <;> simp [dotShape, contractionOk, lastD, h]
  | _ :: _ :: _, _, h, _ => simp at h
  | _, _ :: _ :: _, _, h => simp at h

theorem vdot_eq_spec (a b : List Nat) : vdotShape a b = vdotSpec a b := by
  unfold vdotShape vdotSpec
  obtain ⟨ha, hpa⟩ := ravel_facts a
  obtain ⟨hb, hpb⟩ := ravel_facts b
  simp only
  rw [vdot_core (ravel a) (ravel b) ha hb, hpa, hpb]

/-- rank of `dot` and of `vdot` -/
theorem dot_rank (a b r : List Nat) (h : dotShape a b = some r) :
    r.length = (if a.length = 0 then b.length else if b.length = 0 then a.length
      else a.length + b.length - 2) := by
  rw [dot_eq_spec] at h
  unfold dotSpec at h
  split_ifs at h with h1 h2 h3 h4 h5
  · simp only [Option.some.injEq] at h; subst h; simp [h1]
  · simp only [Option.some.injEq] at h; subst h; simp [h1, h2]
  · simp only [Option.some.injEq] at h; subst h
    rw [if_neg h1, if_neg h2, h3, List.length_take]; omega
  · simp only [Option.some.injEq] at h; subst h
    simp only [h1, h2, if_false, List.length_append, List.length_take, List.length_cons, List.length_nil]; omega

theorem vdot_rank (a b r : List Nat) (h : vdotShape a b = some r) : r = [] := by
  rw [vdot_eq_spec] at h
  unfold vdotSpec at h
  split_ifs at h
  simp only [Option.some.injEq] at h
  exact h.symm

/-! ### pad -/

/-- pad accepts exactly one non-negative (before, after) pair per axis -/
theorem pad_accepts_iff (s : List Nat) (w : List (Int × Int)) :
    (padShape s w).isSome = true ↔ w.length = s.length ∧ ∀ p ∈ w, 0 ≤ p.1 ∧ 0 ≤ p.2 := by
  unfold padShape
  by_cases hl : w.length = s.length
  · rw [if_neg (by simpa using hl)]
    by_cases hn : w.any (fun p => decide (p.1 < 0) || decide (p.2 < 0)) = true
    · rw [if_pos hn]
      simp only [Option.isSome_none, Bool.false_eq_true, false_iff, not_and, not_forall]
      intro _
      obtain ⟨p, hp, hq⟩ := List.any_eq_true.mp hn
      refine ⟨p, hp, ?_⟩
      simp only [Bool.or_eq_true, decide_eq_true_eq] at hq
      omega
    · rw [if_neg hn]
      simp only [Option.isSome_some, true_iff]
      refine ⟨hl, fun p hp => ?_⟩
      have h' : ¬ ((decide (p.1 < 0) || decide (p.2 < 0)) = true) :=
        fun h => hn (List.any_eq_true.mpr ⟨p, hp, h⟩)
      simp only [Bool.or_eq_true, decide_eq_true_eq, not_or, not_lt] at h'
      exact h'
  · rw [if_pos hl]
    simp [hl]

/-- any negative width is refused -/
theorem pad_refuses_negative (s : List Nat) (w : List (Int × Int)) (p : Int × Int) (hp : p ∈ w)
    (hneg : p.1 < 0 ∨ p.2 < 0) : padShape s w = none := by
  cases h : padShape s w with
  | none => rfl
  | some r =>
    have hs : (padShape s w).isSome = true := by rw [h]; rfl
    obtain ⟨h1, h2⟩ := ((pad_accepts_iff s w).mp hs).2 p hp
    rcases hneg with hn | hn <;> omega

/-- the result: one axis per input axis, of length `s_i + before_i + after_i` — never
    shorter than the input axis -/
theorem pad_shape (s r : List Nat) (w : List (Int × Int)) (h : padShape s w = some r) :
    r.length = s.length ∧
    ∀ i (hr : i < r.length) (hs : i < s.length) (hw : i < w.length),
      ((r[i] : Nat) : Int) = (s[i] : Nat) + w[i].1 + w[i].2 ∧ s[i] ≤ r[i] := by
  have hacc := (pad_accepts_iff s w).mp (by rw [h]; rfl)
  unfold padShape at h
  split_ifs at h with h1 h2
  simp only [Option.some.injEq] at h
  subst h
  refine ⟨by simp [hacc.1], fun i hr hs hw => ?_⟩
  have hp := hacc.2 (w[i]) (List.getElem_mem hw)
  simp only [List.getElem_map, List.getElem_zip]
  constructor
  · push_cast
    rw [Int.toNat_of_nonneg hp.1, Int.toNat_of_nonneg hp.2]
  · omega

/-! ### non-vacuity -/

example : matmulShape [2, 3, 2, 4] [3, 4, 5] = some [2, 3, 2, 5]
    ∧ matmulSpec [2, 3, 2, 4] [3, 4, 5] = some [2, 3, 2, 5]
    ∧ matmulShape [2, 1, 2, 4] [3, 4, 5] = some [2, 3, 2, 5]           -- a unit BATCH axis is stretched
    ∧ matmulShape [2, 3, 2, 4] [2, 4, 5] = none := by decide          -- batch axes align from the right
-- (3,) @ (1, 3) and (2, 1) @ (3, 4): a contracted axis of length 1 is not stretched
example : lastD [3] ≠ (if [1, 3].length ≥ 2 then last2D [1, 3] else [1, 3].getD 0 0)
    ∧ matmulShape [3] [1, 3] = none ∧ matmulShape [2, 1] [3, 4] = none ∧ matmulShape [] [3] = none := by decide
example : matmulShape [4] [2, 3, 4, 5] = some [2, 3, 5] ∧ matmulShape [2, 3, 4] [4] = some [2, 3]
    ∧ matmulShape [4] [4] = some [] := by decide
example : dotShape [2, 3, 4] [5, 4, 6] = some [2, 3, 5, 6] ∧ dotSpec [2, 3, 4] [5, 4, 6] = some [2, 3, 5, 6]
    ∧ dotShape [] [3, 4] = some [3, 4] ∧ dotShape [2, 3] [3] = some [2] ∧ dotShape [2, 1] [3] = none
    ∧ dotShape [2, 3] [3, 4] = some [2, 4] := by decide
example : vdotShape [2, 3] [6] = some [] ∧ vdotShape [2, 3] [3, 2] = some [] ∧ vdotShape [] [1] = some []
    ∧ vdotShape [] [2] = none ∧ vdotShape [1, 1] [] = some [] ∧ vdotShape [2, 3] [5] = none := by decide
example : padShape [2, 3] [(1, 2), (0, 1)] = some [5, 4] ∧ padShape [2, 3] [(0, -1), (0, 0)] = none
    ∧ padShape [] [] = some [] ∧ padShape [2] [] = none ∧ (padShape [2, 3] [(1, 2), (0, 1)]).isSome = true := by
  decide

end Contract
end Pt

/-
  Lemmas for C05: denotations are stable under heap extension, and the
  transformation fold preserves them (core Lean only).
-/
import PtModel.Denote
import PtProofs.MapperLemmas
import PtProofs.AnalysisLemmas
import PtProofs.TransformLemmas
namespace Pt

/-! ## heaps and pushes -/

theorem node_push_lt (H : Heap) (x : NodeData) {k : Nat} (hk : k < H.size) :
    Heap.node (H.push x) k = H.node k := by
  unfold Heap.node
  simp [Array.getElem?_push, Nat.ne_of_lt hk]

theorem node_push_eq (H : Heap) (x : NodeData) : Heap.node (H.push x) H.size = x := by
  unfold Heap.node
  simp

theorem node_ge (H : Heap) {k : Nat} (hk : H.size ≤ k) : (H.node k).kids = [] := by
  unfold Heap.node
  have : H[k]? = none := by simp [hk]
  simp [this]

theorem wf_push {H : Heap} (hw : WFHeap H) (x : NodeData)
    (hx : ∀ e, e ∈ x.kids → e.2 < H.size) : WFHeap (H.push x) := by
  intro i e he
  unfold Heap.edges at he
  rcases Nat.lt_trichotomy i H.size with hlt | heq | hgt
  · rw [node_push_lt H x hlt] at he
    exact hw i e he
  · subst heq
    rw [node_push_eq] at he
    exact hx e he
  · have : (Heap.node (H.push x) i).kids = [] := node_ge _ (by simp; omega)
    rw [this] at he
    simp at he

theorem kidsFn_allSel (H : Heap) (j : Nat) : kidsFn allSel H j = (H.node j).kids.map (·.2) := by
  unfold kidsFn Heap.edges
  have : (H.node j).kids.filter (fun e => allSel (H.node j).kind e.1) = (H.node j).kids :=
    List.filter_eq_self.2 (fun _ _ => rfl)
  rw [this]

/-! ## denotations -/

section Den
variable {γ : Type} {D : NodeData → List γ → γ}

theorem treeVal_congr {kids1 kids2 : Nat → List Nat} {comb1 comb2 : Nat → List γ → γ}
    (hb : Below kids1) :
    ∀ (f j : Nat), (∀ i, i ≤ j → kids1 i = kids2 i ∧ comb1 i = comb2 i) →
      treeVal kids1 comb1 f j = treeVal kids2 comb2 f j
  | 0, _, _ => rfl
  | f+1, j, h => by
    rw [treeVal_succ, treeVal_succ, ← (h j (Nat.le_refl _)).1, ← (h j (Nat.le_refl _)).2]
    congr 2
    apply List.map_congr_left
    intro c hc
    exact treeVal_congr hb f c (fun i hi => h i (Nat.le_trans hi (Nat.le_of_lt (hb j c hc))))

theorem denote_congr {H1 H2 : Heap} (hw : WFHeap H1) (j : Nat)
    (h : ∀ i, i ≤ j → H1.node i = H2.node i) : denote D H1 j = denote D H2 j := by
  unfold denote
  apply treeVal_congr (below_of_wf hw allSel)
  intro i hi
  refine ⟨?_, ?_⟩
  · rw [kidsFn_allSel, kidsFn_allSel, h i hi]
  · rw [h i hi]

theorem denote_isSome {H : Heap} (hw : WFHeap H) (j : Nat) : (denote D H j).isSome = true :=
  treeVal_isSome (below_of_wf hw allSel) _ _ (Nat.lt_succ_self _)

/-- the fixpoint equation: a node means what its data makes of its children's meanings -/
theorem denote_fix {H : Heap} (hw : WFHeap H) (j : Nat) :
    denote D H j = evalNode D (denote D H) (H.node j) := by
  have hb := below_of_wf hw allSel
  unfold denote evalNode
  rw [treeVal_succ, kidsFn_allSel, List.map_map]
  congr 2
  apply List.map_congr_left
  intro e he
  have hlt : e.2 < j := hw j e he
  exact treeVal_fuel_irrel hb _ _ e.2 hlt (Nat.lt_succ_self _)

theorem evalNode_congr (val1 val2 : Nat → Option γ) (a b : NodeData) (hD : D a = D b)
    (hk : a.kids.map (fun e => val1 e.2) = b.kids.map (fun e => val2 e.2)) :
    evalNode D val1 a = evalNode D val2 b := by
  unfold evalNode
  rw [hD, hk]

end Den

/-! ## the transformation fold preserves denotations -/

theorem sameNode_eq {a b : NodeData} (h : sameNode a b = true) :
    a.kind = b.kind ∧ a.attrs = b.attrs ∧ a.tags = b.tags ∧ a.kids = b.kids := by
  simpa [sameNode, and_assoc] using h

theorem sameNode_of_eq {a b : NodeData} (h1 : a.kind = b.kind) (h2 : a.attrs = b.attrs)
    (h3 : a.tags = b.tags) (h4 : a.kids = b.kids) : sameNode a b = true := by
  simp [sameNode, h1, h2, h3, h4]

theorem sameNode_symm {a b : NodeData} (h : sameNode a b = true) : sameNode b a = true := by
  obtain ⟨h1, h2, h3, h4⟩ := sameNode_eq h
  exact sameNode_of_eq h1.symm h2.symm h3.symm h4.symm

theorem sameNode_trans {a b c : NodeData} (h : sameNode a b = true) (h' : sameNode b c = true) :
    sameNode a c = true := by
  obtain ⟨h1, h2, h3, h4⟩ := sameNode_eq h
  obtain ⟨g1, g2, g3, g4⟩ := sameNode_eq h'
  exact sameNode_of_eq (h1.trans g1) (h2.trans g2) (h3.trans g3) (h4.trans g4)

section Fold
variable {sel : String → String → Bool} {f : NodeData → NodeData}

/-- the three outcomes of one step, with the conditions under which they occur -/
theorem tstep_cases' (s : TState) (i : Nat) :
    (∃ j, j ∈ s.seen ∧ sameNode (s.heap.node j) (candidate sel f s i) = true
        ∧ tstep sel f s i = { s with map := (i, j) :: s.map })
    ∨ ((∀ j, j ∈ s.seen → sameNode (s.heap.node j) (candidate sel f s i) = false)
        ∧ sameNode (candidate sel f s i) (s.heap.node i) = true
        ∧ tstep sel f s i = { s with map := (i, i) :: s.map, seen := i :: s.seen })
    ∨ ((∀ j, j ∈ s.seen → sameNode (s.heap.node j) (candidate sel f s i) = false)
        ∧ tstep sel f s i =
          { heap := s.heap.push (candidate sel f s i),
            map := (i, s.heap.size) :: s.map, seen := s.heap.size :: s.seen }) := by
  unfold tstep
  split
  · rename_i j hj
    exact Or.inl ⟨j, List.mem_of_find?_eq_some hj, by simpa using List.find?_some hj, rfl⟩
  · rename_i hnone
    have hn : ∀ j, j ∈ s.seen → sameNode (s.heap.node j) (candidate sel f s i) = false := by
      intro j hj
      have := List.find?_eq_none.1 hnone j hj
      simpa using this
    split
    · rename_i hs
      exact Or.inr (Or.inl ⟨hn, hs, rfl⟩)
    · exact Or.inr (Or.inr ⟨hn, rfl⟩)

theorem mapKids_eq (s : TState) (nd : NodeData) :
    mapKids sel s nd = nd.kids.map (fun e =>
      if sel nd.kind e.1 then
        match s.image e.2 with
        | some j => (e.1, j)
        | none => e
      else e) := rfl

theorem mapKids_labels (s : TState) (nd : NodeData) :
    (mapKids sel s nd).map (·.1) = nd.kids.map (·.1) := by
  rw [mapKids_eq, List.map_map]
  apply List.map_congr_left
  intro e _
  simp only [Function.comp]
  split
  · split <;> rfl
  · rfl

variable {γ : Type} {D : NodeData → List γ → γ}

/-- invariant of the transformation fold w.r.t. a denotation -/
structure DenInv (D : NodeData → List γ → γ) (h : Heap) (s : TState) : Prop where
  size : h.size ≤ s.heap.size
  pre : ∀ k, k < h.size → s.heap.node k = h.node k
  wf : WFHeap s.heap
  map : ∀ p, p ∈ s.map → p.2 < s.heap.size ∧ denote D s.heap p.2 = denote D h p.1
  seen : ∀ j, j ∈ s.seen → j < s.heap.size

theorem den_pre {h : Heap} {s : TState} (hw : WFHeap h) (hinv : DenInv D h s) {k : Nat}
    (hk : k < h.size) : denote D s.heap k = denote D h k :=
  (denote_congr hw k (fun i hi => (hinv.pre i (Nat.lt_of_le_of_lt hi hk)).symm)).symm

/-- every mapped child means what the original child means -/
theorem mapKids_vals {h : Heap} {s : TState} (hw : WFHeap h) (hinv : DenInv D h s) {i : Nat}
    (hi : i < h.size) :
    (mapKids sel s (s.heap.node i)).map (fun e => denote D s.heap e.2)
      = (s.heap.node i).kids.map (fun e => denote D s.heap e.2) := by
  rw [mapKids_eq, List.map_map]
  apply List.map_congr_left
  intro e he
  simp only [Function.comp]
  split
  · split
    · rename_i j hj
      have hm := hinv.map _ (image_mem hj)
      have hlt : e.2 < h.size := Nat.lt_trans (hinv.wf i e he) hi
      show denote D s.heap j = denote D s.heap e.2
      rw [hm.2, den_pre hw hinv hlt]
    · rfl
  · rfl

theorem mapKids_lt {h : Heap} {s : TState} (hinv : DenInv D h s) {i : Nat} (hi : i < h.size) :
    ∀ e, e ∈ mapKids sel s (s.heap.node i) → e.2 < s.heap.size := by
  intro e' he'
  rw [mapKids_eq] at he'
  obtain ⟨e, he, rfl⟩ := List.mem_map.1 he'
  have hlt : e.2 < s.heap.size :=
    Nat.lt_of_lt_of_le (Nat.lt_trans (hinv.wf i e he) hi) hinv.size
  split
  · split
    · rename_i j hj
      exact (hinv.map _ (image_mem hj)).1
    · exact hlt
  · exact hlt

/-- the node the step builds means what the original node means -/
theorem candidate_den {h : Heap} {s : TState} (hw : WFHeap h) (hD : DLocal D)
    (hpres : Preserves D f) (hinv : DenInv D h s) {i : Nat} (hi : i < h.size) :
    evalNode D (denote D s.heap) (candidate sel f s i) = denote D h i := by
  unfold candidate
  rw [hpres _ _ (fun e _ => denote_isSome hinv.wf e.2)]
  rw [← den_pre hw hinv hi, denote_fix hinv.wf i]
  apply evalNode_congr
  · exact hD _ _ rfl rfl rfl (mapKids_labels s _)
  · exact mapKids_vals hw hinv hi

theorem tstep_den_inv {h : Heap} {s : TState} (hw : WFHeap h) (hD : DLocal D) (hsub : KidsSub f)
    (hpres : Preserves D f) (hinv : DenInv D h s) {i : Nat} (hi : i < h.size) :
    DenInv D h (tstep sel f s i) := by
  have hcand := candidate_den (sel := sel) hw hD hpres hinv hi
  have his : i < s.heap.size := Nat.lt_of_lt_of_le hi hinv.size
  rcases tstep_cases' (sel := sel) (f := f) s i with ⟨j, hj, hsame, heq⟩ | ⟨_, _, heq⟩ | ⟨_, heq⟩
  · rw [heq]
    refine ⟨hinv.size, hinv.pre, hinv.wf, ?_, hinv.seen⟩
    intro p hp
    rcases List.mem_cons.1 hp with rfl | hp
    · refine ⟨hinv.seen j hj, ?_⟩
      show denote D s.heap j = denote D h i
      rw [← hcand, denote_fix hinv.wf j]
      obtain ⟨h1, h2, h3, h4⟩ := sameNode_eq hsame
      apply evalNode_congr
      · exact hD _ _ h1 h2 h3 (by rw [h4])
      · rw [h4]
    · exact hinv.map p hp
  · rw [heq]
    refine ⟨hinv.size, hinv.pre, hinv.wf, ?_, ?_⟩
    · intro p hp
      rcases List.mem_cons.1 hp with rfl | hp
      · exact ⟨his, den_pre hw hinv hi⟩
      · exact hinv.map p hp
    · intro j hj
      rcases List.mem_cons.1 hj with rfl | hj
      · exact his
      · exact hinv.seen j hj
  · rw [heq]
    have hkids : ∀ e, e ∈ (candidate sel f s i).kids → e.2 < s.heap.size := by
      intro e he
      unfold candidate at he
      exact mapKids_lt hinv hi e (hsub _ e he)
    have hwf' : WFHeap (s.heap.push (candidate sel f s i)) := wf_push hinv.wf _ hkids
    have hstable : ∀ k, k < s.heap.size →
        denote D (s.heap.push (candidate sel f s i)) k = denote D s.heap k := fun k hk =>
      (denote_congr hinv.wf k
        (fun i' hi' => (node_push_lt s.heap _ (Nat.lt_of_le_of_lt hi' hk)).symm)).symm
    refine ⟨?_, ?_, hwf', ?_, ?_⟩
    · show h.size ≤ (s.heap.push _).size
      rw [Array.size_push]
      exact Nat.le_succ_of_le hinv.size
    · intro k hk
      show Heap.node (s.heap.push _) k = h.node k
      rw [node_push_lt _ _ (Nat.lt_of_lt_of_le hk hinv.size)]
      exact hinv.pre k hk
    · intro p hp
      show p.2 < (s.heap.push _).size ∧ denote D (s.heap.push _) p.2 = denote D h p.1
      rw [Array.size_push]
      rcases List.mem_cons.1 hp with rfl | hp
      · refine ⟨Nat.lt_succ_self _, ?_⟩
        show denote D (s.heap.push _) s.heap.size = denote D h i
        rw [denote_fix hwf', node_push_eq, ← hcand]
        apply evalNode_congr _ _ _ _ rfl
        apply List.map_congr_left
        intro e he
        exact hstable e.2 (hkids e he)
      · have := hinv.map p hp
        exact ⟨Nat.lt_succ_of_lt this.1, by rw [hstable _ this.1]; exact this.2⟩
    · intro j hj
      show j < (s.heap.push _).size
      rw [Array.size_push]
      rcases List.mem_cons.1 hj with rfl | hj
      · exact Nat.lt_succ_self _
      · exact Nat.lt_succ_of_lt (hinv.seen j hj)

theorem fold_den_inv {h : Heap} (hw : WFHeap h) (hD : DLocal D) (hsub : KidsSub f)
    (hpres : Preserves D f) :
    ∀ (l : List Nat) (s : TState), (∀ i, i ∈ l → i < h.size) → DenInv D h s →
      DenInv D h (l.foldl (tstep sel f) s)
  | [], _, _, hinv => hinv
  | i :: r, s, hl, hinv => by
    rw [List.foldl_cons]
    exact fold_den_inv hw hD hsub hpres r _ (fun k hk => hl k (by simp [hk]))
      (tstep_den_inv hw hD hsub hpres hinv (hl i (by simp)))

theorem denInv_init (h : Heap) (hw : WFHeap h) :
    DenInv D h { heap := h, map := [], seen := [] } :=
  ⟨Nat.le_refl _, fun _ _ => rfl, hw, by simp, by simp⟩

theorem visitLog_lt {h : Heap} (hw : WFHeap h) (sel : String → String → Bool) {root : Nat}
    (hr : root < h.size) : ∀ i, i ∈ visitLog sel h root → i < h.size := by
  intro i hi
  have := reach_le (below_of_wf hw sel) ((mem_visitLog hw sel root i).1 hi)
  omega

end Fold

theorem image_of_key {s : TState} {i : Nat} (hi : i ∈ s.map.map (·.1)) :
    ∃ j, s.image i = some j := by
  obtain ⟨p, hp, rfl⟩ := List.mem_map.1 hi
  unfold TState.image
  have hsome : (s.map.find? fun q => q.1 == p.1).isSome = true :=
    List.find?_isSome.2 ⟨p, hp, by simp⟩
  obtain ⟨q, hq⟩ := Option.isSome_iff_exists.1 hsome
  exact ⟨q.2, by rw [hq]; rfl⟩

/-! ## deduplication: the identity node function with first-seen merging -/

/-- invariant of the deduplicating fold -/
structure DedupInv (s : TState) : Prop where
  dup : ∀ a, a ∈ s.seen → ∀ b, b ∈ s.seen →
    sameNode (s.heap.node a) (s.heap.node b) = true → a = b
  img : ∀ p, p ∈ s.map → p.2 ∈ s.seen
  closed : ∀ j, j ∈ s.seen → ∀ e, e ∈ (s.heap.node j).kids → e.2 ∈ s.seen

theorem mapKids_seen {s : TState} (hd : DedupInv s) (nd : NodeData)
    (hk : ∀ e, e ∈ nd.kids → ∃ j, s.image e.2 = some j) :
    ∀ e, e ∈ mapKids allSel s nd → e.2 ∈ s.seen := by
  intro e' he'
  rw [mapKids_eq] at he'
  obtain ⟨e, he, rfl⟩ := List.mem_map.1 he'
  obtain ⟨j, hj⟩ := hk e he
  simp only [allSel, if_true, hj]
  exact hd.img _ (image_mem hj)

theorem tstep_dedup_inv {s : TState} (hd : DedupInv s)
    (hseen : ∀ j, j ∈ s.seen → j < s.heap.size) (i : Nat)
    (hk : ∀ e, e ∈ (s.heap.node i).kids → ∃ j, s.image e.2 = some j) :
    DedupInv (tstep allSel relabelId s i) := by
  have hmk := mapKids_seen hd (s.heap.node i) hk
  have hck : (candidate allSel relabelId s i).kids = mapKids allSel s (s.heap.node i) := rfl
  rcases tstep_cases' (sel := allSel) (f := relabelId) s i with
    ⟨j, hj, _, heq⟩ | ⟨hnone, hsame, heq⟩ | ⟨hnone, heq⟩
  · rw [heq]
    refine ⟨hd.dup, ?_, hd.closed⟩
    intro p hp
    rcases List.mem_cons.1 hp with rfl | hp
    · exact hj
    · exact hd.img p hp
  · rw [heq]
    have hnew : ∀ b, b ∈ s.seen → sameNode (s.heap.node i) (s.heap.node b) = true → False := by
      intro b hb hs
      have h1 : sameNode (s.heap.node b) (candidate allSel relabelId s i) = true :=
        sameNode_trans (sameNode_symm hs) (sameNode_symm hsame)
      rw [hnone b hb] at h1
      exact Bool.noConfusion h1
    refine ⟨?_, ?_, ?_⟩
    · intro a ha b hb hs
      change a ∈ i :: s.seen at ha
      change b ∈ i :: s.seen at hb
      change sameNode (s.heap.node a) (s.heap.node b) = true at hs
      rcases List.mem_cons.1 ha with ha' | ha' <;> rcases List.mem_cons.1 hb with hb' | hb'
      · rw [ha', hb']
      · rw [ha'] at hs
        exact (hnew b hb' hs).elim
      · rw [hb'] at hs
        exact (hnew a ha' (sameNode_symm hs)).elim
      · exact hd.dup a ha' b hb' hs
    · intro p hp
      rcases List.mem_cons.1 hp with rfl | hp
      · exact List.mem_cons_self
      · exact List.mem_cons_of_mem _ (hd.img p hp)
    · intro j hj e he
      rcases List.mem_cons.1 hj with rfl | hj
      · have hkids := (sameNode_eq hsame).2.2.2
        rw [← hkids, hck] at he
        exact List.mem_cons_of_mem _ (hmk e he)
      · exact List.mem_cons_of_mem _ (hd.closed j hj e he)
  · rw [heq]
    have hnode : ∀ j, j ∈ s.seen →
        Heap.node (s.heap.push (candidate allSel relabelId s i)) j = s.heap.node j :=
      fun j hj => node_push_lt _ _ (hseen j hj)
    have hnew : ∀ b, b ∈ s.seen →
        sameNode (candidate allSel relabelId s i) (s.heap.node b) = true → False := by
      intro b hb hs
      have h1 := sameNode_symm hs
      rw [hnone b hb] at h1
      exact Bool.noConfusion h1
    refine ⟨?_, ?_, ?_⟩
    · intro a ha b hb hs
      change sameNode (Heap.node (s.heap.push _) a) (Heap.node (s.heap.push _) b) = true at hs
      rcases List.mem_cons.1 ha with rfl | ha <;> rcases List.mem_cons.1 hb with rfl | hb
      · rfl
      · rw [node_push_eq, hnode b hb] at hs
        exact (hnew b hb hs).elim
      · rw [node_push_eq, hnode a ha] at hs
        exact (hnew a ha (sameNode_symm hs)).elim
      · rw [hnode a ha, hnode b hb] at hs
        exact hd.dup a ha b hb hs
    · intro p hp
      rcases List.mem_cons.1 hp with rfl | hp
      · exact List.mem_cons_self
      · exact List.mem_cons_of_mem _ (hd.img p hp)
    · intro j hj e he
      change e ∈ (Heap.node (s.heap.push _) j).kids at he
      rcases List.mem_cons.1 hj with rfl | hj
      · rw [node_push_eq, hck] at he
        exact List.mem_cons_of_mem _ (hmk e he)
      · rw [hnode j hj] at he
        exact List.mem_cons_of_mem _ (hd.closed j hj e he)

/-- the deduplicating fold over a list in which every node comes after its children -/
theorem fold_dedup_inv {h : Heap} (hw : WFHeap h) :
    ∀ (rest done : List Nat) (s : TState),
      (∀ i, i ∈ done ++ rest → i < h.size) →
      (∀ pre i post, done ++ rest = pre ++ i :: post →
        ∀ e, e ∈ (h.node i).kids → e.2 ∈ pre) →
      s.map.map (·.1) = done.reverse →
      DenInv treeOf h s → DedupInv s →
      DedupInv (rest.foldl (tstep allSel relabelId) s)
        ∧ DenInv treeOf h (rest.foldl (tstep allSel relabelId) s)
  | [], _, _, _, _, _, hden, hd => ⟨hd, hden⟩
  | i :: rest, done, s, hlt, hclosed, hkeys, hden, hd => by
    rw [List.foldl_cons]
    have hi : i < h.size := hlt i (by simp)
    have hk : ∀ e, e ∈ (s.heap.node i).kids → ∃ j, s.image e.2 = some j := by
      intro e he
      rw [hden.pre i hi] at he
      apply image_of_key
      rw [hkeys, List.mem_reverse]
      exact hclosed done i rest rfl e he
    have hDl : DLocal treeOf := by
      intro a b h1 h2 h3 h4
      funext ts
      simp [treeOf, h1, h2, h3, h4]
    have hden' : DenInv treeOf h (tstep allSel relabelId s i) :=
      tstep_den_inv hw hDl (fun _ _ he => he) (fun _ _ _ => rfl) hden hi
    have := fold_dedup_inv hw rest (done ++ [i]) (tstep allSel relabelId s i)
      (by simpa using hlt) (by simpa using hclosed)
      (by rw [tstep_keys, hkeys]; simp) hden'
      (tstep_dedup_inv hd hden.seen i hk)
    exact this

/-- in the visit log every node comes after its children -/
theorem visitLog_children_before {h : Heap} (hw : WFHeap h) (root : Nat) :
    ∀ pre i post, visitLog allSel h root = pre ++ i :: post →
      ∀ e, e ∈ (h.node i).kids → e.2 ∈ pre := by
  intro pre i post hsplit e he
  have hb := below_of_wf hw allSel
  have hcl := dfs_root_closed hb root
  unfold visitLog at hsplit
  have hvis : dfs (kidsFn allSel h) (root + 1) root [] = post.reverse ++ i :: pre.reverse := by
    have := congrArg List.reverse hsplit
    simpa using this
  have hc : e.2 ∈ kidsFn allSel h i := by
    rw [kidsFn_allSel]
    exact List.mem_map.2 ⟨e, he, rfl⟩
  have := closedL_split _ hcl _ _ _ hvis e.2 hc
  simpa using this

end Pt

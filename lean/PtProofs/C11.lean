/-
  Property C11 — memory safety of the lowering rules.  `Pt.accesses env e` lists
  every subscript actually evaluated when `e` is evaluated in `env` (only the
  taken branch of an `If`, every iteration of a reduction), each with `ok`
  (index within the bounds of the binding) and `affine` (index expressions free
  of subscripts).

  Each `lower_X_accesses` says: evaluating the expression the lowering rule
  builds (`Pt.Lower.X`, the same models as in C02) at ANY in-bounds output index,
  for ANY rank / shape / parameter, makes EXACTLY ONE access, to the stated
  operand, affine and in bounds.  `lower_X_accesses_inbounds` is the corollary
  `∀ acc ∈ accesses …, acc.ok = true`.  Hypotheses are those of `lower_X_correct`.
-/
import PtProofs.AccessLemmas
import PtProofs.PadLemmas
import PtProofs.C02
import PtProofs.ReduceLemmas
import PtProofs.ConstructLemmas
namespace Pt

/-- all accesses of a one-element access list with `ok = true` are ok -/
theorem all_ok_of_single {l : List Access} {nm : String} {vs : List Val}
    (h : l = [⟨nm, vs, true, true⟩]) : ∀ acc ∈ l, acc.ok = true := by
  subst h; intro acc hacc; simp at hacc; subst hacc; rfl

/-! ## roll -/

theorem lower_roll_accesses (shift : Int) (axis : Nat) (a : Arr Val) (i : Idx)
    (hi : inB a.shape i = true) (hax : axis < a.shape.length) :
    ∃ vs, accesses (idxEnv i [("_in0", a)])
        (Lower.roll shift axis a.shape.length (a.shape.getD axis 0))
      = [⟨"_in0", vs, true, true⟩] := by
  obtain ⟨j, hj, hin⟩ := roll_index shift axis a i hi hax
  unfold Lower.roll
  refine ⟨_, accesses_sub_ok _ _ _ a j ?_ (lookupArr_head _ _ _ _) hj hin⟩
  apply hasSubList_map_range
  intro d
  split_ifs <;> simp [hasSub, hasSub_subConst, hasSub_ivar]

theorem lower_roll_accesses_inbounds (shift : Int) (axis : Nat) (a : Arr Val) (i : Idx)
    (hi : inB a.shape i = true) (hax : axis < a.shape.length) :
    ∀ acc ∈ accesses (idxEnv i [("_in0", a)])
        (Lower.roll shift axis a.shape.length (a.shape.getD axis 0)), acc.ok = true := by
  obtain ⟨vs, h⟩ := lower_roll_accesses shift axis a i hi hax
  exact all_ok_of_single h

/-! ## axis permutation -/

theorem lower_perm_accesses (p : List Nat) (a : Arr Val) (i : Idx)
    (hlen : p.length = a.shape.length)
    (hperm : ∀ d, d < p.length → d ∈ p)
    (hi : inB (Spec.transpose p a).shape i = true) :
    ∃ vs, accesses (idxEnv i [("_in0", a)]) (Lower.perm p) = [⟨"_in0", vs, true, true⟩] := by
  obtain ⟨j, hj, hin⟩ := perm_index p a i hlen hperm hi
  unfold Lower.perm
  exact ⟨_, accesses_sub_ok _ _ _ a j (hasSubList_map_range _ _ (fun d => hasSub_ivar _))
    (lookupArr_head _ _ _ _) hj hin⟩

theorem lower_perm_accesses_inbounds (p : List Nat) (a : Arr Val) (i : Idx)
    (hlen : p.length = a.shape.length)
    (hperm : ∀ d, d < p.length → d ∈ p)
    (hi : inB (Spec.transpose p a).shape i = true) :
    ∀ acc ∈ accesses (idxEnv i [("_in0", a)]) (Lower.perm p), acc.ok = true := by
  obtain ⟨vs, h⟩ := lower_perm_accesses p a i hlen hperm hi
  exact all_ok_of_single h

/-! ## basic indexing (ints and slices) -/

theorem lower_basic_accesses (ix : List Spec.BIdx) (a : Arr Val) (i : Idx)
    (hv : Lower.validIx a.shape ix)
    (hi : inB (Spec.basicIndex ix a).shape i = true) :
    ∃ vs, accesses (idxEnv i [("in", a)]) (Lower.basic (Lower.normIdx a.shape ix) a.shape)
      = [⟨"in", vs, true, true⟩] := by
  obtain ⟨h1, h2⟩ := basicIdxFrom_eval i [("in", a)] ix a.shape 0 hv
    (by simpa [Spec.basicIndex] using hi)
  unfold Lower.basic
  exact ⟨_, accesses_sub_ok _ _ _ a _ (hasSubList_basicIdxFrom _ _ _)
    (lookupArr_head _ _ _ _) h1 h2⟩

theorem lower_basic_accesses_inbounds (ix : List Spec.BIdx) (a : Arr Val) (i : Idx)
    (hv : Lower.validIx a.shape ix)
    (hi : inB (Spec.basicIndex ix a).shape i = true) :
    ∀ acc ∈ accesses (idxEnv i [("in", a)]) (Lower.basic (Lower.normIdx a.shape ix) a.shape),
      acc.ok = true := by
  obtain ⟨vs, h⟩ := lower_basic_accesses ix a i hv hi
  exact all_ok_of_single h

/-! ## stack -/

/-- under the nested `If`s only the operand numbered by the axis entry of the
    output index is touched, once, in bounds -/
theorem lower_stack_accesses (s : Shape) (axis : Nat) (as : List (Arr Val)) (i : Idx)
    (hshape : ∀ a ∈ as, a.shape = s) (hax : axis ≤ s.length)
    (hi : inB (Spec.stack s axis as .undef).shape i = true) :
    ∃ vs, accesses (idxEnv i (Lower.inBinds as)) (Lower.stack as.length axis (s.length + 1))
      = [⟨Lower.inName (i.getD axis 0), vs, true, true⟩] := by
  obtain ⟨hj, hin, haxi⟩ := inB_stack axis s as.length i hax (by simpa [Spec.stack] using hi)
  have hlen : i.length = s.length + 1 := by
    have := inB_length hi
    simp only [Spec.stack, List.length_append, List.length_take, List.length_drop,
      List.length_cons, List.length_nil] at this
    omega
  unfold Lower.stack
  rw [accesses_stackFrom (idxEnv i (Lower.inBinds as)) axis _ _ (i.getD axis 0)
    (idxEnv_pt i _ axis haxi) as.length 0 (by omega) (by omega)]
  have hsub : (((List.range (s.length + 1)).filter (· ≠ axis)).map Lower.ivar).map
      (eval (idxEnv i (Lower.inBinds as))) = (i.eraseIdx axis).map fun x => Val.i (x : Nat) := by
    rw [← filter_ne_map_getD, hlen, List.map_map, List.map_map]
    apply List.map_congr_left
    intro d hd
    have hd' : d < i.length := by
      have := (List.mem_filter.mp hd).1
      simp at this; omega
    simp only [Function.comp, Lower.ivar, eval_idx i _ d hd']
  have hget : as[i.getD axis 0]? = some as[i.getD axis 0] := List.getElem?_eq_getElem hj
  have hsh := hshape _ (List.getElem_mem hj)
  refine ⟨_, accesses_sub_ok _ _ _ as[i.getD axis 0] (i.eraseIdx axis) ?_
    (by rw [lookupArr_inBinds, hget]) (by rw [evalList_eq_map, hsub, toNatIdx_map_i])
    (by rw [hsh]; exact hin)⟩
  rw [hasSubList_eq_false_iff]
  intro e he
  obtain ⟨d, _, rfl⟩ := List.mem_map.mp he
  exact hasSub_ivar d

theorem lower_stack_accesses_inbounds (s : Shape) (axis : Nat) (as : List (Arr Val)) (i : Idx)
    (hshape : ∀ a ∈ as, a.shape = s) (hax : axis ≤ s.length)
    (hi : inB (Spec.stack s axis as .undef).shape i = true) :
    ∀ acc ∈ accesses (idxEnv i (Lower.inBinds as)) (Lower.stack as.length axis (s.length + 1)),
      acc.ok = true := by
  obtain ⟨vs, h⟩ := lower_stack_accesses s axis as i hshape hax hi
  exact all_ok_of_single h

/-! ## concatenate -/

/-- under the nested `If`s only the operand `k` that `concatLocate` selects is
    touched, once, and `_axis - lbound_k` is within that operand -/
theorem lower_concat_accesses (axis : Nat) (a0 : Arr Val) (rest : List (Arr Val)) (i : Idx)
    (hax : axis < a0.shape.length)
    (hshape : ∀ a ∈ a0 :: rest, a.shape = a0.shape.set axis (a.shape.getD axis 0))
    (hi : inB (Spec.concatenate axis (a0 :: rest) .undef).shape i = true) :
    ∃ k o vs, Spec.concatLocate ((a0 :: rest).map (·.shape.getD axis 0)) (i.getD axis 0) = some (k, o)
      ∧ accesses (idxEnv i (Lower.inBinds (a0 :: rest)))
          (Lower.concat ((a0 :: rest).map (·.shape.getD axis 0)) axis a0.shape.length)
        = [⟨Lower.inName k, vs, true, true⟩] := by
  generalize has : a0 :: rest = as at *
  have hs0 : (as.head?.map (·.shape)).getD [] = a0.shape := by rw [← has]; rfl
  simp only [Spec.concatenate, hs0] at hi
  have hlen : i.length = a0.shape.length := by
    have := inB_length hi; simpa using this
  have haxi : axis < i.length := by omega
  have hj : i.getD axis 0 < (as.map (·.shape.getD axis 0)).sum := by
    have := inB_getD_lt axis hi (by simpa using hax)
    simpa [List.getD, List.getElem?_set, hax] using this
  obtain ⟨k, o, hloc, hk, ho, hoj⟩ := concatLocate_spec _ _ hj
  refine ⟨k, o, evalList (idxEnv i (Lower.inBinds as))
    (shiftIx axis i.length (i.getD axis 0 - o)), hloc, ?_⟩
  unfold Lower.concat
  rw [← hlen, accesses_concatFrom i _ axis haxi _ 0 0 k o (Nat.zero_le _) (by simpa using hloc)]
  have hix := shiftIx_eval i (Lower.inBinds as) axis (i.getD axis 0 - o) (by omega)
  have e : i.getD axis 0 - (i.getD axis 0 - o) = o := by omega
  rw [e] at hix
  have hk' : k < as.length := by simpa using hk
  have hget : as[k]? = some as[k] := List.getElem?_eq_getElem hk'
  have hsh := hshape _ (List.getElem_mem hk')
  have ho' : o < as[k].shape.getD axis 0 := by
    simpa [List.getD, List.getElem?_map, hget] using ho
  have hin : inB as[k].shape (i.set axis o) = true := by
    rw [hsh]; exact inB_set_set _ _ _ _ _ _ hi ho'
  rw [Nat.zero_add]
  exact accesses_sub_ok _ _ _ as[k] (i.set axis o) (hasSubList_shiftIx _ _ _)
    (by rw [lookupArr_inBinds, hget]) (by rw [evalList_eq_map, hix, toNatIdx_map_i]) hin

theorem lower_concat_accesses_inbounds (axis : Nat) (a0 : Arr Val) (rest : List (Arr Val))
    (i : Idx) (hax : axis < a0.shape.length)
    (hshape : ∀ a ∈ a0 :: rest, a.shape = a0.shape.set axis (a.shape.getD axis 0))
    (hi : inB (Spec.concatenate axis (a0 :: rest) .undef).shape i = true) :
    ∀ acc ∈ accesses (idxEnv i (Lower.inBinds (a0 :: rest)))
        (Lower.concat ((a0 :: rest).map (·.shape.getD axis 0)) axis a0.shape.length),
      acc.ok = true := by
  obtain ⟨k, o, vs, _, h⟩ := lower_concat_accesses axis a0 rest i hax hshape hi
  exact all_ok_of_single h

/-! ## reshape (the full grouped algorithm, both orders) -/

theorem lower_reshape_accesses (o : Lower.Order) (old new : Shape) (a : Arr Val) (i : Idx)
    (e : SExpr) (ha : a.shape = old) (hprod : prod old = prod new) (hi : inB new i = true)
    (hg : Lower.reshape o old new = some e) :
    ∃ vs, accesses (idxEnv i [("_in0", a)]) e = [⟨"_in0", vs, true, true⟩] := by
  unfold Lower.reshape at hg
  obtain ⟨ix, hix, rfl⟩ := Option.map_eq_some_iff.mp hg
  have hev := reshapeIdx_eval o old new [("_in0", a)] i ix hprod hi hix
  have hin : inB a.shape (unravel o old (ravel o new i)) = true := by
    rw [ha]; exact unravel_inB o old _ (hprod ▸ ravel_lt o new i hi)
  exact ⟨_, accesses_sub_ok _ _ _ a _ (hasSubList_reshapeIdx o old new ix hix)
    (lookupArr_head _ _ _ _) (by rw [evalList_eq_map, hev, toNatIdx_map_i]) hin⟩

theorem lower_reshape_accesses_inbounds_C (old new : Shape) (a : Arr Val) (i : Idx) (e : SExpr)
    (ha : a.shape = old) (hprod : prod old = prod new) (hi : inB new i = true)
    (hg : Lower.reshape .C old new = some e) :
    ∀ acc ∈ accesses (idxEnv i [("_in0", a)]) e, acc.ok = true := by
  obtain ⟨vs, h⟩ := lower_reshape_accesses .C old new a i e ha hprod hi hg
  exact all_ok_of_single h

theorem lower_reshape_accesses_inbounds_F (old new : Shape) (a : Arr Val) (i : Idx) (e : SExpr)
    (ha : a.shape = old) (hprod : prod old = prod new) (hi : inB new i = true)
    (hg : Lower.reshape .F old new = some e) :
    ∀ acc ∈ accesses (idxEnv i [("_in0", a)]) e, acc.ok = true := by
  obtain ⟨vs, h⟩ := lower_reshape_accesses .F old new a i e ha hprod hi hg
  exact all_ok_of_single h

/-! ## pad (constant mode) -/

/-- `pt.pad`: evaluating the padded expression at ANY index of the padded shape
    (`idx_d < n_d + before_d + after_d`), for any rank / axis lengths / widths,
    with the upper guards holding `n_d + before_d` (literal, or a variable bound
    to that number for a symbolic axis), touches `in_0` at most once, and then at
    `idx - before`, which is within `in_0` componentwise: in the pad area the
    guards keep the subscript from being evaluated at all. -/
theorem pad_accesses_inbounds (a : Arr Val) (widths : List (Nat × Nat))
    (cvals : List (SExpr × SExpr)) (bounds : List SExpr) (binds : List (String × Arr Val))
    (i : Idx)
    (hw : widths.length = a.shape.length) (hc : cvals.length = a.shape.length)
    (hb : bounds.length = a.shape.length)
    (hin0 : (idxEnv i binds).lookupArr "in_0" = some a)
    (hbounds : bounds.map (eval (idxEnv i binds))
      = (a.shape.zip widths).map fun p => Val.i ((p.1 + p.2.1 : Nat) : Int))
    (hcv : ∀ c ∈ cvals, hasSub c.1 = false ∧ hasSub c.2 = false)
    (hbn : ∀ b ∈ bounds, hasSub b = false)
    (hi : inB ((a.shape.zip widths).map fun p => p.1 + p.2.1 + p.2.2) i = true) :
    ∀ acc ∈ accesses (idxEnv i binds) (Lower.padExpr widths cvals bounds),
      acc.ok = true ∧ acc.affine = true ∧ acc.name = "in_0" :=
  padExpr_accesses ⟨hw, hc, hb, hin0, boundsOK_of_map hw hc hb hbounds, hi⟩ hcv hbn

/-! ## einsum -/

/-- `map_einsum`: under the hypotheses of `lower_einsum_correct`, every operand
    access made while evaluating the lowered einsum — in every iteration of the
    (nested) reduction, i.e. for every valuation of the reduction indices within
    their bounds — is affine and within the accessed operand. -/
theorem einsum_accesses_inbounds (descrs : List (List EAxis)) (nout : Nat)
    (args : List (Arr Val)) (i : Idx)
    (hlen : descrs.length = args.length) (hne : args ≠ [])
    (hwf : ∀ p ∈ descrs.zip args, p.1.length = p.2.shape.length)
    (hbc : ∀ p ∈ descrs.zip args, ∀ q ∈ p.1.zip p.2.shape,
      q.2 = Spec.axisLen (Spec.axisLenTable descrs (args.map (·.shape))) q.1 ∨ q.2 = 1)
    (helem : ∀ p ∈ descrs.zip args, ∀ j, EAxis.elem j ∈ p.1 → j < nout)
    (hred : ∀ j, j < Spec.numRed descrs → EAxis.red j ∈ descrs.flatMap id)
    (hi : inB (Spec.einsumV descrs nout args).shape i = true) :
    ∀ acc ∈ accesses (idxEnv i (Lower.inBinds args)) (Lower.einsum descrs (args.map (·.shape))),
      acc.ok = true ∧ acc.affine = true :=
  einsum_accesses ⟨hlen, hne, hwf, hbc, helem, hred, hi⟩

/-! ## advanced indexing -/

/-- `map_(non_)contiguous_advanced_index`, WITHOUT any assumption on the values
    in the index arrays (C11 excludes data-dependent indices, not the rest): the
    expression is `in0[ix]`, whose accesses are `accessesList env ix` followed by
    the access of `in0` at `evalList env ix`.  Every access made by the index
    expressions — the reads of the index arrays through their broadcast
    subscripts — is affine and in bounds; and the components of the index into
    `in0` that come from integers and slices are integers within their axes. -/
theorem advindex_accesses_affine_inbounds (contig : Bool) (B : Shape) (first last : Nat)
    (ixs : List RAIdx) (a : Arr Val) (in0 : String) (names : List String) (i : Idx)
    (hva : Lower.advValidAffine ixs a.shape)
    (hB : ∀ x ∈ Lower.arrsOf ixs, Raise.Bcastable x.shape B)
    (hnd : (in0 :: names).Nodup) (hn : names.length = (Lower.arrsOf ixs).length)
    (hs : contig = true → ∃ pre blk post, AdvSeg ixs pre blk post first last)
    (hi : inB (Spec.advIndex contig B first last ixs a).shape i = true) :
    ∃ ix, Lower.advIndexWith contig first last in0 names B (Lower.normAIdx a.shape ixs) a.shape
        = .sub in0 ix ∧
      (∀ acc ∈ accessesList (idxEnv i (advBinds in0 names a (Lower.arrsOf ixs))) ix,
        acc.ok = true ∧ acc.affine = true) ∧
      Lower.affinePartsOK ixs a.shape
        (evalList (idxEnv i (advBinds in0 names a (Lower.arrsOf ixs))) ix) :=
  advIndexWith_accesses ⟨hva, hB, hnd, hn, hi⟩ hs

/-! ## the array API: binary operators, comparisons, logical operations, `where` -/

/-- every access of the index lambda the API builds for a binary operation is
    an affine, in-bounds read of an operand — for all shapes that broadcast -/
theorem binop_accesses_inbounds (op : Raise.BinOp) (o1 o2 : BOpd) (v1 v2 : Option (Arr Val))
    (r : Shape) (res : String) (cast isPow : Bool) (binds : List (String × Arr Val)) (i : Idx)
    (hr : ptBroadcast [Lower.opdShape o1, Lower.opdShape o2] = some r)
    (h1 : OpdOK 0 o1 v1 binds) (h2 : OpdOK 1 o2 v2 binds) (hi : inB r i = true) :
    ∀ acc ∈ accesses (idxEnv i binds) (Lower.binopExpr op o1 o2 r res cast isPow),
      acc.ok = true ∧ acc.affine = true :=
  binopExpr_accesses op o1 o2 v1 v2 r res cast isPow binds i hr h1 h2 hi

/-- likewise for `pt.where` (only the taken branch is read) -/
theorem where_accesses_inbounds (oc ox oy : BOpd) (vc vx vy : Option (Arr Val)) (r : Shape)
    (binds : List (String × Arr Val)) (i : Idx)
    (hr : ptBroadcast [Lower.opdShape oc, Lower.opdShape ox, Lower.opdShape oy] = some r)
    (h1 : OpdOK 0 oc vc binds) (h2 : OpdOK 1 ox vx binds) (h3 : OpdOK 2 oy vy binds)
    (hi : inB r i = true) :
    ∀ acc ∈ accesses (idxEnv i binds) (Lower.whereExpr oc ox oy r),
      acc.ok = true ∧ acc.affine = true :=
  whereExpr_accesses oc ox oy vc vx vy r binds i hr h1 h2 h3 hi

/-- every access of a lowered reduction (`sum, prod, amax, amin, all, any`), in
    every iteration of every reduction variable, is an affine, in-bounds read of
    the operand — any rank, any set of reduction axes -/
theorem reduce_accesses_inbounds (op : RedOp) (a : Arr Val) (axes : Option (List Nat)) (e : SExpr)
    (binds : List (String × Arr Val)) (i : Idx)
    (he : Lower.reduceExpr op a.shape axes = some e)
    (hl : Raise.lookupEnv binds "in" = some a)
    (hi : inB (Spec.reduceV op axes a).shape i = true) :
    ∀ acc ∈ accesses (idxEnv i binds) e, acc.ok = true ∧ acc.affine = true :=
  reduceExpr_accesses op a axes e binds i he hl hi

/-- the constructors `full / zeros / ones`, `eye`, `arange` read no array at all -/
theorem constructors_access_free (env : Env) :
    (∀ dt fill e, Lower.fullLit dt fill = some e → accesses env e = []) ∧
    (∀ k, accesses env (Lower.eyeExpr k) = []) ∧
    (∀ isInt start stop step shape e, Lower.arange isInt start stop step = some (shape, e) →
      accesses env e = []) :=
  constructors_no_accesses env

/-- the lowered CSR product, whose reduction bounds and one subscript are read
    from arrays: under CSR well-formedness every access — `row_starts[_0]`,
    `row_starts[_0 + 1]`, and in every iteration `elem_values[_r0]`,
    `elem_col_indices[_r0]`, `b[elem_col_indices[_r0], _1, …]` — is in bounds, and
    all but the last (the gather through the column indices) are affine -/
theorem csr_accesses_inbounds {nrows ncols nnz : Nat} {ev ec rs b : Arr Val}
    {R : Nat → Int} {C : Nat → Nat} {E : Nat → ℚ} {B : Idx → ℚ}
    (h : CsrOK nrows ncols nnz ev ec rs b R C E B) {binds : List (String × Arr Val)}
    (hb : CsrBinds binds ev ec rs b) (i : Idx)
    (hi : inB (Spec.csrMatmulV nrows ncols ev ec rs b).shape i = true) :
    ∀ acc ∈ accesses (idxEnv i binds) (Lower.csrExpr b.shape.length),
      acc.ok = true ∧ (acc.name ≠ "_in3" → acc.affine = true) :=
  csrExpr_accesses h hb i hi

/-! ## non-vacuity: the hypotheses are those of C02 (instances there); here the
    access lists of concrete instances, computed -/

example : (accesses (idxEnv [1, 0] [("_in0", exArr)]) (Lower.roll (-4) 1 2 3)).map
    (fun acc => (acc.name, acc.idx, acc.affine, acc.ok)) = [("_in0", [.i 1, .i 1], true, true)] := by
  decide
example : (accesses (idxEnv [1, 1, 2] (Lower.inBinds [exArr, exArr2])) (Lower.stack 2 1 3)).map
    (fun acc => (acc.name, acc.idx, acc.ok)) = [("_in1", [.i 1, .i 2], true)] := by decide
example : (accesses (idxEnv [1, 4] (Lower.inBinds [exArr, exArr3])) (Lower.concat [3, 2] 1 2)).map
    (fun acc => (acc.name, acc.idx, acc.ok)) = [("_in1", [.i 1, .i 1], true)] := by decide
example : ((Lower.reshape .C [2, 3] [3, 2]).map fun e =>
    (accesses (idxEnv [2, 1] [("_in0", exArr)]) e).map (fun acc => (acc.name, acc.idx, acc.ok)))
      = some [("_in0", [.i 1, .i 2], true)] := by decide
-- advanced index `x3[[0,-1], ::2, [1,-2]]` at output [1, 1]: two affine in-bounds reads of the
-- index arrays, then the data-dependent read of `in`
example : ((Lower.advIndex false (Lower.normAIdx [3, 4, 2] exAdvN) [3, 4, 2]).map fun e =>
      (accesses (idxEnv [1, 1] (advBinds "in" ["in_0", "in_1"] exX342 [exI2a, exI2b])) e).map
        (fun acc => (acc.name, acc.idx, acc.affine, acc.ok)))
    = some [("in_0", [.i 1], true, true), ("in_1", [.i 1], true, true),
            ("in", [.i 2, .i 2, .i 0], false, true)] := by decide
-- einsum `ij,jk->ik` at output [1, 2]: 3 iterations × 2 operands = 6 accesses, all in bounds
example : (accesses (idxEnv [1, 2] (Lower.inBinds [exM23, exM34]))
      (Lower.einsum (Lower.einsumDescrs ["ij".toList, "jk".toList] "ik".toList) [[2, 3], [3, 4]])).map
    (fun acc => (acc.name, acc.idx, acc.ok))
    = [("_in0", [.i 1, .i 0], true), ("_in1", [.i 0, .i 2], true),
       ("_in0", [.i 1, .i 1], true), ("_in1", [.i 1, .i 2], true),
       ("_in0", [.i 1, .i 2], true), ("_in1", [.i 2, .i 2], true)] := by decide
-- pad: inside the operand one in-bounds access; in the pad area (here a corner) none
example : (accesses (idxEnv [2, 3] [("in_0", exArr)])
      (Lower.padExpr [(1, 2), (2, 1)] [(.int 10, .int 20), (.int 30, .int 40)] [.int 3, .int 5])).map
    (fun acc => (acc.name, acc.idx, acc.affine, acc.ok)) = [("in_0", [.i 1, .i 1], true, true)] := by
  decide
example : accesses (idxEnv [4, 5] [("in_0", exArr)])
      (Lower.padExpr [(1, 2), (2, 1)] [(.int 10, .int 20), (.int 30, .int 40)] [.int 3, .int 5])
    = [] := by decide
/-- the mutant "`after` instead of `before` in the upper guard" (bound 2+2 instead of 2+1 on
    axis 0) is NOT covered by the theorem (its `hbounds` fails) and does read out of bounds -/
example : (accesses (idxEnv [3, 3] [("in_0", exArr)])
      (Lower.padExpr [(1, 2), (2, 1)] [(.int 10, .int 20), (.int 30, .int 40)] [.int 4, .int 5])).map
    (·.ok) = [false] := by decide
/-- the `ok` flag does detect an out-of-bounds access: the same roll expression
    evaluated at an index outside the output shape -/
example : (accesses (idxEnv [5, 0] [("_in0", exArr)]) (Lower.roll (-4) 1 2 3)).map (·.ok)
    = [false] := by decide

-- `sum(x, axis=1)` at output [1]: three reads of row 1
example : ((Lower.reduceExpr .sum [2, 3] (some [1])).map fun e =>
    (accesses (idxEnv [1] [("in", exArr)]) e).map (fun acc => (acc.idx, acc.affine, acc.ok)))
      = some [([.i 1, .i 0], true, true), ([.i 1, .i 1], true, true), ([.i 1, .i 2], true, true)] := by
  decide +kernel

-- the CSR example of C02 at output [0, 1]: bounds, then per stored entry value, column, gathered operand
example : (accesses (idxEnv [0, 1] exCsrBinds) (Lower.csrExpr 2)).map
    (fun acc => (acc.name, acc.idx, acc.affine, acc.ok))
      = [("_in2", [.i 0], true, true), ("_in2", [.i 1], true, true),
         ("_in0", [.i 0], true, true), ("_in1", [.i 0], true, true), ("_in3", [.i 0, .i 1], false, true),
         ("_in0", [.i 1], true, true), ("_in1", [.i 1], true, true), ("_in3", [.i 2, .i 1], false, true)] := by
  decide +kernel

end Pt

/-
  Helper lemmas for the API layer of binary operators / where (C02 value, C11 accesses):
  `get_shape_after_broadcasting` yields a shape every operand broadcasts to;
  operands, casts and operator expressions evaluate to their NumPy meaning.
-/
import PtModel.Binop
import PtProofs.EvalLemmas
import PtProofs.StackConcatLemmas
import PtProofs.AccessLemmas
import PtProofs.RaiseLemmas
import Mathlib.Tactic.Ring
import Mathlib.Algebra.Field.Rat
namespace Pt
open Lower Spec

/-! ### the broadcast shape is one every operand broadcasts to -/

theorem mapM_some_spec {α β : Type} (f : α → Option β) : ∀ (l : List α) (r : List β),
    l.mapM f = some r → r.length = l.length ∧ ∀ k (h : k < l.length) (h' : k < r.length),
      f l[k] = some r[k]
  | [], r, h => by
    simp only [List.mapM_nil, pure, Option.some.injEq] at h
    subst h; exact ⟨rfl, fun k h => by simp at h⟩
  | a :: l, r, h => by
    simp only [List.mapM_cons, bind, Option.bind] at h
    cases hfa : f a with
    | none => simp [hfa] at h
    | some b =>
      simp only [hfa] at h
      cases hl : l.mapM f with
      | none => simp [hl] at h
      | some bs =>
        simp only [hl, pure, Option.some.injEq] at h
        subst h
        obtain ⟨h1, h2⟩ := mapM_some_spec f l bs hl
        refine ⟨by simp [h1], fun k hk hk' => ?_⟩
        cases k with
        | zero => simpa using hfa
        | succ k => simpa using h2 k (by simpa using hk) (by simpa using hk')

theorem ptAxisLen_spec : ∀ (ls : List Nat) (cur d : Nat), ptAxisLen cur ls = some d →
    (cur = d ∨ cur = 1) ∧ ∀ l ∈ ls, l = d ∨ l = 1
  | [], cur, d, h => by
    simp only [ptAxisLen, Option.some.injEq] at h
    exact ⟨Or.inl h, fun l hl => by simp at hl⟩
  | n :: rest, cur, d, h => by
    unfold ptAxisLen at h
    by_cases h1 : n = cur ∨ n = 1
    · rw [if_pos h1] at h
      obtain ⟨hc, hr⟩ := ptAxisLen_spec rest cur d h
      refine ⟨hc, fun l hl => ?_⟩
      simp only [List.mem_cons] at hl
      rcases hl with rfl | hl
      · rcases h1 with rfl | h1
        · exact hc
        · exact Or.inr h1
      · exact hr l hl
    · rw [if_neg h1] at h
      by_cases h2 : cur = 1
      · rw [if_pos h2] at h
        obtain ⟨hc, hr⟩ := ptAxisLen_spec rest n d h
        refine ⟨Or.inr h2, fun l hl => ?_⟩
        simp only [List.mem_cons] at hl
        rcases hl with rfl | hl
        · exact hc
        · exact hr l hl
      · rw [if_neg h2] at h; cases h

theorem ptAxis_spec (ls : List Nat) (d : Nat) (h : ptAxis ls = some d) : ∀ l ∈ ls, l = d ∨ l = 1 := by
  cases ls with
  | nil => intro l hl; simp at hl
  | cons c cs =>
    obtain ⟨hc, hr⟩ := ptAxisLen_spec cs c d h
    intro l hl
    simp only [List.mem_cons] at hl
    rcases hl with rfl | hl
    · exact hc
    · exact hr l hl

theorem foldl_max_ge : ∀ (l : List Nat) (m x : Nat), x ∈ l → x ≤ l.foldl max m
  | [], _, _, h => by simp at h
  | y :: l, m, x, h => by
    simp only [List.foldl_cons]
    have hmono : ∀ (l : List Nat) (a b : Nat), a ≤ b → l.foldl max a ≤ l.foldl max b := by
      intro l
      induction l with
      | nil => intro a b h; simpa using h
      | cons z l ih => intro a b h; simp only [List.foldl_cons]; exact ih _ _ (by omega)
    have hle : ∀ (l : List Nat) (a : Nat), a ≤ l.foldl max a := by
      intro l
      induction l with
      | nil => intro a; simp
      | cons z l ih =>
        intro a; simp only [List.foldl_cons]
        exact Nat.le_trans (Nat.le_max_left a z) (ih _)
    simp only [List.mem_cons] at h
    rcases h with rfl | h
    · exact Nat.le_trans (Nat.le_max_right m x) (hle l _)
    · exact foldl_max_ge l _ x h

/-- every operand shape broadcasts to the shape `get_shape_after_broadcasting` returns -/
theorem ptBroadcast_bcastable (shapes : List Shape) (r : Shape) (h : ptBroadcast shapes = some r) :
    ∀ s ∈ shapes, Raise.Bcastable s r := by
  unfold ptBroadcast at h
  simp only at h
  obtain ⟨hlen, hget⟩ := mapM_some_spec _ _ _ h
  simp only [List.length_range] at hlen
  intro s hs
  have hsr : s.length ≤ r.length := by
    rw [hlen]; exact foldl_max_ge _ 0 _ (List.mem_map.mpr ⟨s, hs, rfl⟩)
  refine ⟨hsr, fun k hk => ?_⟩
  have hk' : r.length - s.length + k < r.length := by omega
  have := hget (r.length - s.length + k) (by simpa [hlen] using hk') hk'
  simp only [List.getElem_range] at this
  have hspec := ptAxis_spec _ _ this
    ((padShape r.length s).getD (r.length - s.length + k) 1)
    (List.mem_map.mpr ⟨padShape r.length s, List.mem_map.mpr ⟨s, hs, by rw [hlen]⟩, rfl⟩)
  have hpad : (padShape r.length s).getD (r.length - s.length + k) 1 = s.getD k 0 := by
    simp [padShape, List.getD_eq_getElem?_getD, hk]
  rw [hpad] at hspec
  rcases hspec with h1 | h1
  · left
    rw [h1]; simp [List.getD_eq_getElem?_getD, List.getElem?_eq_getElem hk']
  · exact Or.inr h1

/-! ### operands -/

/-- an operand together with its value: an array of the declared shape bound to
    `_in<k>`, or a scalar literal -/
def OpdOK (k : Nat) (o : BOpd) (v : Option (Arr Val)) (binds : List (String × Arr Val)) : Prop :=
  match o, v with
  | .arr s _, some a => a.shape = s ∧ Raise.lookupEnv binds (inName k) = some a
  | .npScalar c _, none => isConstLit c = true ∨ c = .nan
  | .pyScalar c, none => isConstLit c = true ∨ c = .nan
  | _, _ => False

theorem isLit_of_const {c : SExpr} (h : isConstLit c = true ∨ c = .nan) :
    Raise.isLit c = true ∨ c = .nan := by
  rcases h with h | h
  · left; cases c <;> simp_all [isConstLit, Raise.isLit]
  · exact Or.inr h

/-- an operand's expression evaluates to its NumPy-broadcast value -/
theorem opdExpr_eval (k : Nat) (o : BOpd) (v : Option (Arr Val)) (binds : List (String × Arr Val))
    (r : Shape) (i : Idx) (h : OpdOK k o v binds) (hb : Raise.Bcastable (opdShape o) r)
    (hi : inB r i = true) :
    eval (idxEnv i binds) (opdExpr k r o) = opdValue r i v (opdExpr k r o) := by
  cases o with
  | arr s dt =>
    cases v with
    | none => simp [OpdOK] at h
    | some a =>
      obtain ⟨hs, hl⟩ := h
      subst hs
      have hl' : (idxEnv i binds).lookupArr (inName k) = some a := hl
      simp only [opdExpr, opdValue, Spec.broadcastTo]
      by_cases h0 : a.shape = []
      · simp only [h0, if_true, eval, Env.lookupIx, idxEnv, List.find?_nil, Option.map_none]
        have : Env.lookupArr { pt := i, ix := [], arr := binds } (inName k) = some a := hl
        simp [this, h0, Spec.bcastIdx]
      · simp only [h0, if_false]
        obtain ⟨hev, hin⟩ := Raise.bcastSubscript_eval a.shape r i binds hb hi
        rw [eval_sub_of _ _ _ _ hev, hl']
        simp only [hin, if_true]
  | npScalar c dt =>
    cases v with
    | some a => simp [OpdOK] at h
    | none =>
      simp only [opdExpr, opdValue]
      exact (Raise.litVal_eq i binds c (isLit_of_const h)).symm
  | pyScalar c =>
    cases v with
    | some a => simp [OpdOK] at h
    | none =>
      simp only [opdExpr, opdValue]
      exact (Raise.litVal_eq i binds c (isLit_of_const h)).symm

theorem convLit_lit (res : String) (c : SExpr) (h : isConstLit c = true ∨ c = .nan) :
    isConstLit (convLit res c) = true ∨ convLit res c = .nan := by
  rcases h with h | h
  · left
    cases c <;> simp_all [isConstLit, convLit] <;> split_ifs <;> rfl
  · subst h; right; rfl

/-- the cast / literal conversion evaluates to the converted value -/
theorem castOpd_eval (env : Env) (res : String) (isPow : Bool) (o : BOpd) (v : Option (Arr Val))
    (k : Nat) (r : Shape) (binds : List (String × Arr Val)) (h : OpdOK k o v binds)
    (i : Idx) (henv : env = idxEnv i binds) :
    eval env (castOpd res isPow o (opdExpr k r o))
      = castVal res isPow o (eval env (opdExpr k r o)) := by
  cases o with
  | arr s dt =>
    simp only [castOpd, castVal]
    split_ifs <;> simp [eval]
  | npScalar c dt =>
    simp only [castOpd, castVal]
    split_ifs <;> simp [eval]
  | pyScalar c =>
    cases v with
    | some a => simp [OpdOK] at h
    | none =>
      have hc : isConstLit c = true ∨ c = .nan := h
      simp only [castVal, opdExpr]
      subst henv
      have hres : isConstLit (castOpd res isPow (.pyScalar c) c) = true
          ∨ castOpd res isPow (.pyScalar c) c = .nan := by
        simp only [castOpd]
        cases c with
        | nan => right; rfl
        | int n => split_ifs <;> first | exact convLit_lit res _ hc | exact hc | exact Or.inl rfl
        | rat p q => split_ifs <;> first | exact convLit_lit res _ hc | exact hc | exact Or.inl rfl
        | bool b => split_ifs <;> first | exact convLit_lit res _ hc | exact hc | exact Or.inl rfl
        | _ => simp [isConstLit] at hc
      exact (Raise.litVal_eq i binds _ (isLit_of_const hres)).symm

/-! ### operators -/

theorem eval_negLit (env : Env) (c : SExpr) (h : isConstLit c = true) :
    eval env (negLit c) = Val.mul (.i (-1)) (eval env c) := by
  cases c with
  | int n =>
    simp only [negLit, eval, Val.mul, Val.arith, Val.toInt?]
    congr 1; omega
  | bool b =>
    simp only [negLit, eval, Val.mul, Val.arith, Val.toInt?]
    cases b <;> simp
  | rat p q =>
    simp only [negLit, eval]
    by_cases hq : q = 0
    · simp [hq, Val.mul, Val.arith, Val.toInt?, Val.toRat?]
    · simp only [hq, if_false, Val.mul, Val.arith, Val.toInt?, Val.toRat?]
      congr 1
      push_cast
      ring
  | _ => simp [isConstLit] at h

/-- the expression pymbolic builds for `op(e1, e2)` evaluates to `op` of the values -/
theorem opExpr_eval (env : Env) (op : Raise.BinOp) (e1 e2 : SExpr) :
    eval env (opExpr op e1 e2) = op.apply (eval env e1) (eval env e2) := by
  cases op with
  | sub =>
    simp only [opExpr, Raise.BinOp.apply, Raise.valSub]
    by_cases hc : isConstLit e2 = true
    · rw [if_pos hc]
      simp only [eval, eval_negLit env e2 hc]
    · rw [if_neg hc]
      simp only [eval]
  | cmp c => simp [opExpr, Raise.BinOp.apply, eval]
  | _ => simp [opExpr, Raise.BinOp.apply, eval, evalList]

/-! ### the rules -/

/-- `broadcast_binary_op` is NumPy's broadcasting of the operator -/
theorem binopExpr_eval (op : Raise.BinOp) (o1 o2 : BOpd) (v1 v2 : Option (Arr Val)) (r : Shape)
    (res : String) (cast isPow : Bool) (binds : List (String × Arr Val)) (i : Idx)
    (hr : ptBroadcast [opdShape o1, opdShape o2] = some r)
    (h1 : OpdOK 0 o1 v1 binds) (h2 : OpdOK 1 o2 v2 binds) (hi : inB r i = true) :
    eval (idxEnv i binds) (binopExpr op o1 o2 r res cast isPow)
      = (binopV op o1 o2 v1 v2 r res cast isPow).get i := by
  have hb := ptBroadcast_bcastable _ r hr
  have e1 := opdExpr_eval 0 o1 v1 binds r i h1 (hb _ (by simp)) hi
  have e2 := opdExpr_eval 1 o2 v2 binds r i h2 (hb _ (by simp)) hi
  simp only [binopExpr, binopV]
  cases cast with
  | false => simp only [Bool.false_eq_true, if_false, opExpr_eval, e1, e2]
  | true =>
    simp only [if_true, opExpr_eval,
      castOpd_eval _ res isPow o1 v1 0 r binds h1 i rfl,
      castOpd_eval _ res isPow o2 v2 1 r binds h2 i rfl, e1, e2]

/-- `pt.where` is `numpy.where` with broadcasting -/
theorem whereExpr_eval (oc ox oy : BOpd) (vc vx vy : Option (Arr Val)) (r : Shape)
    (binds : List (String × Arr Val)) (i : Idx)
    (hr : ptBroadcast [opdShape oc, opdShape ox, opdShape oy] = some r)
    (h1 : OpdOK 0 oc vc binds) (h2 : OpdOK 1 ox vx binds) (h3 : OpdOK 2 oy vy binds)
    (hi : inB r i = true) :
    eval (idxEnv i binds) (whereExpr oc ox oy r) = (whereV oc ox oy vc vx vy r).get i := by
  have hb := ptBroadcast_bcastable _ r hr
  have e1 := opdExpr_eval 0 oc vc binds r i h1 (hb _ (by simp)) hi
  have e2 := opdExpr_eval 1 ox vx binds r i h2 (hb _ (by simp)) hi
  have e3 := opdExpr_eval 2 oy vy binds r i h3 (hb _ (by simp)) hi
  simp only [whereExpr, whereV, eval, e1, e2, e3]
  cases (opdValue r i vc (opdExpr 0 r oc)).truthy? with
  | none => rfl
  | some b => cases b <;> rfl

/-! ### accesses -/

theorem hasSub_const {c : SExpr} (h : isConstLit c = true ∨ c = .nan) : hasSub c = false := by
  rcases h with h | h
  · cases c <;> simp_all [isConstLit, hasSub]
  · subst h; rfl

theorem accesses_opdExpr (k : Nat) (o : BOpd) (v : Option (Arr Val)) (binds : List (String × Arr Val))
    (r : Shape) (i : Idx) (h : OpdOK k o v binds) (hb : Raise.Bcastable (opdShape o) r)
    (hi : inB r i = true) :
    ∀ acc ∈ accesses (idxEnv i binds) (opdExpr k r o), acc.ok = true ∧ acc.affine = true := by
  cases o with
  | arr s dt =>
    cases v with
    | none => simp [OpdOK] at h
    | some a =>
      obtain ⟨hs, hl⟩ := h
      subst hs
      simp only [opdExpr]
      by_cases h0 : a.shape = []
      · simp [h0, accesses]
      · simp only [h0, if_false]
        obtain ⟨hev, hin⟩ := Raise.bcastSubscript_eval a.shape r i binds hb hi
        have hsubs : hasSubList (bcastSubscript a.shape r) = false := by
          apply hasSubList_map_range
          intro d; split_ifs <;> simp [hasSub, ivar]
        rw [accesses_sub_ok (idxEnv i binds) _ _ a _ hsubs hl
          (by rw [evalList_eq_map, hev, toNatIdx_map_i]) hin]
        intro acc hacc
        simp only [List.mem_singleton] at hacc
        subst hacc; exact ⟨rfl, rfl⟩
  | npScalar c dt =>
    cases v with
    | some a => simp [OpdOK] at h
    | none =>
      simp only [opdExpr]
      rw [accesses_nil_of_noSub _ _ (hasSub_const h)]
      intro acc hacc; simp at hacc
  | pyScalar c =>
    cases v with
    | some a => simp [OpdOK] at h
    | none =>
      simp only [opdExpr]
      rw [accesses_nil_of_noSub _ _ (hasSub_const h)]
      intro acc hacc; simp at hacc

theorem accesses_castOpd (env : Env) (res : String) (isPow : Bool) (o : BOpd) (v : Option (Arr Val))
    (k : Nat) (r : Shape) (binds : List (String × Arr Val)) (h : OpdOK k o v binds) :
    ∀ acc ∈ accesses env (castOpd res isPow o (opdExpr k r o)), acc ∈ accesses env (opdExpr k r o) := by
  cases o with
  | arr s dt =>
    simp only [castOpd]
    split_ifs <;> simp [accesses]
  | npScalar c dt =>
    simp only [castOpd]
    split_ifs <;> simp [accesses]
  | pyScalar c =>
    cases v with
    | some a => simp [OpdOK] at h
    | none =>
      have hc : isConstLit c = true ∨ c = .nan := h
      have hres : hasSub (castOpd res isPow (.pyScalar c) c) = false := by
        simp only [castOpd]
        cases c with
        | nan => rfl
        | int n => split_ifs <;> first | exact hasSub_const (convLit_lit res _ hc) | rfl
        | rat p q => split_ifs <;> first | exact hasSub_const (convLit_lit res _ hc) | rfl
        | bool b => split_ifs <;> first | exact hasSub_const (convLit_lit res _ hc) | rfl
        | _ => simp [isConstLit] at hc
      simp only [opdExpr]
      rw [accesses_nil_of_noSub _ _ hres]
      intro acc hacc; simp at hacc

theorem accesses_opExpr (env : Env) (op : Raise.BinOp) (e1 e2 : SExpr) :
    ∀ acc ∈ accesses env (opExpr op e1 e2), acc ∈ accesses env e1 ∨ acc ∈ accesses env e2 := by
  intro acc h
  cases op with
  | sub =>
    simp only [opExpr] at h
    by_cases hc : isConstLit e2 = true
    · rw [if_pos hc] at h
      have hn : hasSub (negLit e2) = false := by
        cases e2 <;> simp_all [isConstLit, negLit, hasSub]
      simp only [accesses, accesses_nil_of_noSub _ _ hn, List.append_nil] at h
      exact Or.inl h
    · rw [if_neg hc] at h
      simp only [accesses, List.nil_append, List.mem_append] at h
      exact h
  | cmp c => simpa [opExpr, accesses] using h
  | _ => simpa [opExpr, accesses, accessesList] using h

/-- every access of a lowered binary operation is an affine, in-bounds read of an operand -/
theorem binopExpr_accesses (op : Raise.BinOp) (o1 o2 : BOpd) (v1 v2 : Option (Arr Val)) (r : Shape)
    (res : String) (cast isPow : Bool) (binds : List (String × Arr Val)) (i : Idx)
    (hr : ptBroadcast [opdShape o1, opdShape o2] = some r)
    (h1 : OpdOK 0 o1 v1 binds) (h2 : OpdOK 1 o2 v2 binds) (hi : inB r i = true) :
    ∀ acc ∈ accesses (idxEnv i binds) (binopExpr op o1 o2 r res cast isPow),
      acc.ok = true ∧ acc.affine = true := by
  have hb := ptBroadcast_bcastable _ r hr
  have a1 := accesses_opdExpr 0 o1 v1 binds r i h1 (hb _ (by simp)) hi
  have a2 := accesses_opdExpr 1 o2 v2 binds r i h2 (hb _ (by simp)) hi
  intro acc hacc
  simp only [binopExpr] at hacc
  cases cast with
  | false =>
    simp only [Bool.false_eq_true, if_false] at hacc
    rcases accesses_opExpr _ op _ _ acc hacc with h | h
    · exact a1 acc h
    · exact a2 acc h
  | true =>
    simp only [if_true] at hacc
    rcases accesses_opExpr _ op _ _ acc hacc with h | h
    · exact a1 acc (accesses_castOpd _ res isPow o1 v1 0 r binds h1 acc h)
    · exact a2 acc (accesses_castOpd _ res isPow o2 v2 1 r binds h2 acc h)

theorem whereExpr_accesses (oc ox oy : BOpd) (vc vx vy : Option (Arr Val)) (r : Shape)
    (binds : List (String × Arr Val)) (i : Idx)
    (hr : ptBroadcast [opdShape oc, opdShape ox, opdShape oy] = some r)
    (h1 : OpdOK 0 oc vc binds) (h2 : OpdOK 1 ox vx binds) (h3 : OpdOK 2 oy vy binds)
    (hi : inB r i = true) :
    ∀ acc ∈ accesses (idxEnv i binds) (whereExpr oc ox oy r), acc.ok = true ∧ acc.affine = true := by
  have hb := ptBroadcast_bcastable _ r hr
  have a1 := accesses_opdExpr 0 oc vc binds r i h1 (hb _ (by simp)) hi
  have a2 := accesses_opdExpr 1 ox vx binds r i h2 (hb _ (by simp)) hi
  have a3 := accesses_opdExpr 2 oy vy binds r i h3 (hb _ (by simp)) hi
  intro acc hacc
  simp only [whereExpr, accesses, List.mem_append] at hacc
  rcases hacc with h | h
  · exact a1 acc h
  · cases ht : (eval (idxEnv i binds) (opdExpr 0 r oc)).truthy? with
    | none => rw [ht] at h; simp at h
    | some b =>
      rw [ht] at h
      cases b
      · exact a3 acc h
      · exact a2 acc h

end Pt

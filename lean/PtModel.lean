import PtModel.Basic
import PtModel.Slice
import PtModel.Scalar
import PtModel.Sexp
import PtModel.Spec
import PtModel.Lower
import PtModel.Handle
import PtModel.Affine

/-
  PtModel.Eq — the model of structural equality, hashing and persistent keys of
  pytato expression graphs (properties C04 and C18).  Core Lean only.

  * `Term`      — the tree unfolding of an expression: kind name, scalar
                  attributes per field (canonical strings), children per field.
                  A field may occur in both lists (e.g. `shape` = "(@,3)" + the
                  array-valued component as child).
  * `Tbl`       — per kind, the list of field names an operation looks at.
  * `eqStruct`  — the recursive comparer (`EqualityComparer`): same kind, same
                  field skeleton, tabled attributes equal, tabled children
                  pairwise `eqStruct`.
  * `proj`      — the *semantic projection*: blank the contents of every
                  untabled field, everywhere in the tree.
  * `SemEq`     — the specification: equal semantic projections.
  * `hashStruct`— generated `__hash__`: an arbitrary mixing function applied to
                  the kind, the tabled attributes and the children's hashes.
  * `encFull`/`enc`/`key` — the token stream fed to the persistent-key hash.
  * `Heap`, `unfold`, `eqMemo` — the DAG view (node = object, numbered by
                  identity) and the id-pair-memoised comparison.
-/
namespace Pt.EqM

/-! ## terms -/

inductive Term where
  | node (kind : String) (attrs : List (String × String)) (kids : List (String × List Term))
deriving Repr, Inhabited

abbrev Attrs := List (String × String)
abbrev Fields := List (String × List Term)
/-- per kind: the field names an operation (==, hash, key) consumes -/
abbrev Tbl := String → List String

namespace Term
def kind : Term → String | .node k _ _ => k
def attrs : Term → Attrs | .node _ a _ => a
def kids : Term → Fields | .node _ _ c => c

mutual
/-- number of nodes of the tree -/
def size : Term → Nat
  | .node _ _ c => 1 + sizeKids c
def sizeKids : Fields → Nat
  | [] => 0
  | (_, cs) :: r => sizeList cs + sizeKids r
def sizeList : List Term → Nat
  | [] => 0
  | t :: ts => size t + sizeList ts
end

mutual
/-- syntactic equality (decides `=`; `PtProofs.EqLemmas.beq_iff_eq`) -/
def beq : Term → Term → Bool
  | .node k1 a1 c1, .node k2 a2 c2 => k1 == k2 && a1 == a2 && beqKids c1 c2
def beqKids : Fields → Fields → Bool
  | [], [] => true
  | (f, cs) :: r, (g, ds) :: s => f == g && beqList cs ds && beqKids r s
  | _, _ => false
def beqList : List Term → List Term → Bool
  | [], [] => true
  | a :: as, b :: bs => beq a b && beqList as bs
  | _, _ => false
end

mutual
/-- every node's kind satisfies `p` -/
def allKinds (p : String → Bool) : Term → Bool
  | .node k _ c => p k && allKindsKids p c
def allKindsKids (p : String → Bool) : Fields → Bool
  | [] => true
  | (_, cs) :: r => allKindsList p cs && allKindsKids p r
def allKindsList (p : String → Bool) : List Term → Bool
  | [] => true
  | t :: ts => allKinds p t && allKindsList p ts
end
end Term

/-! ## the recursive comparer -/

/-- attributes: same names in the same order; values compared for tabled names only -/
def eqAttrs (fs : List String) : Attrs → Attrs → Bool
  | [], [] => true
  | (f, v) :: r, (g, w) :: s => f == g && (!fs.contains f || v == w) && eqAttrs fs r s
  | _, _ => false

mutual
def eqStruct (tbl : Tbl) : Term → Term → Bool
  | .node k1 a1 c1, .node k2 a2 c2 =>
    k1 == k2 && eqAttrs (tbl k1) a1 a2 && eqKids tbl (tbl k1) c1 c2
/-- children: same field names in the same order; the children lists of tabled
    fields have the same length and are pairwise `eqStruct` -/
def eqKids (tbl : Tbl) (fs : List String) : Fields → Fields → Bool
  | [], [] => true
  | (f, cs) :: r, (g, ds) :: s =>
    f == g && (!fs.contains f || eqList tbl cs ds) && eqKids tbl fs r s
  | _, _ => false
def eqList (tbl : Tbl) : List Term → List Term → Bool
  | [], [] => true
  | a :: as, b :: bs => eqStruct tbl a b && eqList tbl as bs
  | _, _ => false
end

/-! ## semantic projection and the specification `SemEq` -/

def projAttrs (fs : List String) : Attrs → Attrs
  | [] => []
  | (f, v) :: r => (f, if fs.contains f then v else "") :: projAttrs fs r

mutual
def proj (tbl : Tbl) : Term → Term
  | .node k a c => .node k (projAttrs (tbl k) a) (projKids tbl (tbl k) c)
def projKids (tbl : Tbl) (fs : List String) : Fields → Fields
  | [] => []
  | (f, cs) :: r => (f, if fs.contains f then projList tbl cs else []) :: projKids tbl fs r
def projList (tbl : Tbl) : List Term → List Term
  | [] => []
  | t :: ts => proj tbl t :: projList tbl ts
end

/-- `a` and `b` have the same structure in every semantic component: after
    blanking all non-semantic fields (at every depth) they are the same tree. -/
def SemEq (sem : Tbl) (a b : Term) : Prop := proj sem a = proj sem b

/-- executable `SemEq` (`PtProofs.EqLemmas.semEqB_iff`) -/
def semEqB (sem : Tbl) (a b : Term) : Bool := Term.beq (proj sem a) (proj sem b)

/-! ## hashing -/

/-- the mixing function abstracts CPython's `hash` of a tuple of field values -/
abbrev Mix := String → Attrs → List (String × List Nat) → Nat

mutual
def hashStruct (mix : Mix) (tbl : Tbl) : Term → Nat
  | .node k a c => mix k (projAttrs (tbl k) a) (hashKids mix tbl (tbl k) c)
def hashKids (mix : Mix) (tbl : Tbl) (fs : List String) : Fields → List (String × List Nat)
  | [] => []
  | (f, cs) :: r => (f, if fs.contains f then hashList mix tbl cs else []) :: hashKids mix tbl fs r
def hashList (mix : Mix) (tbl : Tbl) : List Term → List Nat
  | [] => []
  | t :: ts => hashStruct mix tbl t :: hashList mix tbl ts
end

/-! ## persistent key: prefix-free token encoding -/

inductive Token where
  | s (x : String)
  | n (x : Nat)
deriving Repr, DecidableEq, Inhabited

def encAttrs : Attrs → List Token
  | [] => []
  | (f, v) :: r => .s f :: .s v :: encAttrs r

mutual
/-- kind, number of attributes, the attributes, number of child fields, then per
    field its name, the number of children and the children's encodings -/
def encFull : Term → List Token
  | .node k a c => .s k :: .n a.length :: (encAttrs a ++ (.n c.length :: encKids c))
def encKids : Fields → List Token
  | [] => []
  | (f, cs) :: r => .s f :: .n cs.length :: (encList cs ++ encKids r)
def encList : List Term → List Token
  | [] => []
  | t :: ts => encFull t ++ encList ts
end

/-- what the key builder feeds its hash: the encoding of the tabled fields -/
def enc (tbl : Tbl) (t : Term) : List Token := encFull (proj tbl t)

/-- the persistent key: an abstract hash `H` of the token stream -/
def key {α : Type} (H : List Token → α) (tbl : Tbl) (t : Term) : α := H (enc tbl t)

/-! ## tables as data -/

/-- the function view of a generated table `[(kind, fields)]` -/
def tblOf (t : List (String × List String)) : Tbl := fun k => (t.lookup k).getD []

/-- the row view `[(kind, field)]` of a generated table -/
def rowsOf (t : List (String × List String)) : List (String × String) :=
  t.flatMap fun kf => kf.2.map fun f => (kf.1, f)

/-- two tables select the same fields (order and repetitions do not matter) -/
def TblEquivOn (p : String → Bool) (t s : Tbl) : Prop :=
  ∀ k, p k = true → ∀ f, (t k).contains f = (s k).contains f

/-- `t` selects at most the fields `s` selects -/
def TblSub (t s : Tbl) : Prop := ∀ k f, (t k).contains f = true → (s k).contains f = true

/-! ## one-hole contexts (for the congruence statement) -/

inductive Ctx where
  | hole
  | node (kind : String) (attrs : Attrs) (pre : Fields) (field : String)
      (left : List Term) (inner : Ctx) (right : List Term) (post : Fields)
deriving Inhabited

def Ctx.plug : Ctx → Term → Term
  | .hole, t => t
  | .node k a pre f l c r post, t => .node k a (pre ++ (f, l ++ c.plug t :: r) :: post)

def Ctx.depth : Ctx → Nat
  | .hole => 0
  | .node _ _ _ _ _ c _ _ => c.depth + 1

/-! ## the DAG view: heaps, unfolding, memoised comparison -/

structure HNode where
  kind : String
  attrs : Attrs
  kids : List (String × List Nat)
deriving Repr, Inhabited

/-- node `i` is the `i`-th entry; the serialiser numbers *objects* in post-order,
    so children have smaller numbers than their parents (`Heap.WF`) -/
abbrev Heap := List HNode

def Heap.WF (h : Heap) : Prop :=
  ∀ (i : Nat) (n : HNode), h[i]? = some n → ∀ f cs, (f, cs) ∈ n.kids → ∀ c ∈ cs, c < i

def Heap.wfB (h : Heap) : Bool :=
  (List.range h.length).all fun i =>
    match h[i]? with
    | none => true
    | some (n : HNode) => n.kids.all fun fc => fc.2.all fun c => decide (c < i)

def unfoldList (rec : Nat → Term) : List Nat → List Term
  | [] => []
  | i :: is => rec i :: unfoldList rec is

def unfoldKids (rec : Nat → Term) : List (String × List Nat) → Fields
  | [] => []
  | (f, is) :: r => (f, unfoldList rec is) :: unfoldKids rec r

/-- tree unfolding with fuel (`unfold` supplies enough) -/
def unfoldF (h : Heap) : Nat → Nat → Term
  | 0, _ => .node "?" [] []
  | fuel + 1, i =>
    match h[i]? with
    | none => .node "?" [] []
    | some n => .node n.kind n.attrs (unfoldKids (unfoldF h fuel) n.kids)

def unfold (h : Heap) (i : Nat) : Term := unfoldF h (i + 1) i

abbrev Memo := List ((Nat × Nat) × Bool)

/-- `all(rec(c, d) for c, d in zip(cs, ds))` with Python's short circuit, threading the memo -/
def cmpList (rec : Nat → Nat → Memo → Bool × Memo) : List Nat → List Nat → Memo → Bool × Memo
  | [], [], m => (true, m)
  | i :: is, j :: js, m =>
    match rec i j m with
    | (true, m1) => cmpList rec is js m1
    | (false, m1) => (false, m1)
  | _, _, m => (false, m)

def cmpKids (rec : Nat → Nat → Memo → Bool × Memo) (fs : List String) :
    List (String × List Nat) → List (String × List Nat) → Memo → Bool × Memo
  | [], [], m => (true, m)
  | (f, is) :: r, (g, js) :: s, m =>
    if f == g then
      match (if fs.contains f then cmpList rec is js m else (true, m)) with
      | (true, m1) => cmpKids rec fs r s m1
      | (false, m1) => (false, m1)
    else (false, m)
  | _, _, m => (false, m)

/-- `EqualityComparer.rec`: identity shortcut (only meaningful when both nodes live
    in the same heap, `same = true`), memo lookup keyed by the pair of node
    numbers, otherwise the per-kind comparison, whose result is memoised. -/
def cmpF (tbl : Tbl) (same : Bool) (h1 h2 : Heap) : Nat → Nat → Nat → Memo → Bool × Memo
  | 0, _, _, m => (false, m)
  | fuel + 1, i, j, m =>
    if same && i == j then (true, m) else
    match m.lookup (i, j) with
    | some b => (b, m)
    | none =>
      match h1[i]?, h2[j]? with
      | some n1, some n2 =>
        let r :=
          if n1.kind == n2.kind && eqAttrs (tbl n1.kind) n1.attrs n2.attrs then
            cmpKids (cmpF tbl same h1 h2 fuel) (tbl n1.kind) n1.kids n2.kids m
          else (false, m)
        (r.1, ((i, j), r.1) :: r.2)
      | _, _ => (false, m)

/-- memoised comparison of node `i` of `h1` with node `j` of `h2` -/
def eqMemo (tbl : Tbl) (same : Bool) (h1 h2 : Heap) (i j : Nat) : Bool :=
  (cmpF tbl same h1 h2 (max i j + 1) i j []).1

/-- number of per-kind comparisons performed (= memo entries written) -/
def eqMemoWork (tbl : Tbl) (same : Bool) (h1 h2 : Heap) (i j : Nat) : Nat :=
  (cmpF tbl same h1 h2 (max i j + 1) i j []).2.length

end Pt.EqM

/-
  PtModel.Sexp — the wire format between the Python harness and `ptdriver`:
  one s-expression per line.  Atoms are bare tokens (no blanks, no parentheses)
  or double-quoted strings without escapes.
-/
import PtModel.Scalar
namespace Pt

inductive Sx where
  | atom (s : String)
  | list (xs : List Sx)
deriving Repr, Inhabited

namespace Sx

partial def toStr : Sx → String
  | atom s => s
  | list xs => "(" ++ " ".intercalate (xs.map toStr) ++ ")"

/-- tokeniser -/
def tokenize (s : String) : List String := Id.run do
  let mut toks : Array String := #[]
  let mut cur : String := ""
  let mut inStr := false
  for c in s.toList do
    if inStr then
      if c == '"' then
        toks := toks.push ("\"" ++ cur)
        cur := ""
        inStr := false
      else cur := cur.push c
    else if c == '"' then
      if cur != "" then toks := toks.push cur; cur := ""
      inStr := true
    else if c == '(' || c == ')' then
      if cur != "" then toks := toks.push cur; cur := ""
      toks := toks.push (String.singleton c)
    else if c == ' ' || c == '\t' || c == '\n' || c == '\r' then
      if cur != "" then toks := toks.push cur; cur := ""
    else cur := cur.push c
  if cur != "" then toks := toks.push cur
  return toks.toList

/-- parse a token list into a stack machine result -/
def parseToks (toks : List String) : Option Sx := Id.run do
  -- stack of partially built lists
  let mut stack : List (Array Sx) := [#[]]
  for t in toks do
    if t == "(" then
      stack := #[] :: stack
    else if t == ")" then
      match stack with
      | top :: next :: rest => stack := (next.push (list top.toList)) :: rest
      | _ => return none
    else
      let a := if t.startsWith "\"" then atom (t.drop 1).toString else atom t
      match stack with
      | top :: rest => stack := (top.push a) :: rest
      | [] => return none
  match stack with
  | [top] => if top.size == 1 then some top[0]! else some (list top.toList)
  | _ => none

def parse (s : String) : Option Sx := parseToks (tokenize s)

def asAtom? : Sx → Option String
  | atom s => some s
  | _ => none

def asList? : Sx → Option (List Sx)
  | list xs => some xs
  | _ => none

def asInt? : Sx → Option Int
  | atom s => s.toInt?
  | _ => none

def asNat? : Sx → Option Nat
  | atom s => s.toNat?
  | _ => none

def asOptInt? : Sx → Option (Option Int)
  | atom "None" => some none
  | atom s => s.toInt?.map some
  | _ => none

def asInts? (x : Sx) : Option (List Int) := do
  let xs ← x.asList?
  xs.mapM asInt?

def asNats? (x : Sx) : Option (List Nat) := do
  let xs ← x.asList?
  xs.mapM asNat?

end Sx

/-! ### values -/

def Val.toWire : Val → String
  | .i n => toString n
  | .b true => "#t"
  | .b false => "#f"
  | .q r => if r.den = 1 then toString r.num else s!"{r.num}/{r.den}"
  | .undef => "?"

def Val.ofWire (s : String) : Option Val :=
  if s == "#t" then some (.b true)
  else if s == "#f" then some (.b false)
  else if s == "?" then some .undef
  else match s.splitOn "/" with
    | [p] => p.toInt?.map .i
    | [p, d] => do
      let p ← p.toInt?
      let d ← d.toNat?
      if d = 0 then none else some (.q ((p : Rat) / (d : Rat)))
    | _ => none

/-! ### scalar expressions -/

def CmpOp.ofWire : String → Option CmpOp
  | "==" => some .eq | "!=" => some .ne | "<" => some .lt
  | "<=" => some .le | ">" => some .gt | ">=" => some .ge
  | _ => none

def CmpOp.toWire : CmpOp → String
  | .eq => "==" | .ne => "!=" | .lt => "<" | .le => "<=" | .gt => ">" | .ge => ">="

def RedOp.ofWire : String → Option RedOp
  | "sum" => some .sum | "prod" => some .prod | "max" => some .max
  | "min" => some .min | "all" => some .all | "any" => some .any
  | _ => none

def RedOp.toWire : RedOp → String
  | .sum => "sum" | .prod => "prod" | .max => "max" | .min => "min"
  | .all => "all" | .any => "any"

partial def SExpr.ofSx : Sx → Option SExpr
  | .atom _ => none
  | .list (.atom h :: args) =>
    match h, args with
    | "int", [n] => n.asInt?.map .int
    | "bool", [.atom "#t"] => some (.bool true)
    | "bool", [.atom "#f"] => some (.bool false)
    | "rat", [p, q] => do some (.rat (← p.asInt?) (← q.asNat?))
    | "nan", [] => some .nan
    | "idx", [k] => k.asNat?.map .idx
    | "var", [.atom x] => some (.var x)
    | "sub", (.atom a :: ix) => do some (.sub a (← ix.mapM SExpr.ofSx))
    | "add", [a, b] => do some (.add (← ofSx a) (← ofSx b))
    | "mul", [a, b] => do some (.mul (← ofSx a) (← ofSx b))
    | "quot", [a, b] => do some (.quot (← ofSx a) (← ofSx b))
    | "fdiv", [a, b] => do some (.fdiv (← ofSx a) (← ofSx b))
    | "rem", [a, b] => do some (.rem (← ofSx a) (← ofSx b))
    | "pow", [a, b] => do some (.pow (← ofSx a) (← ofSx b))
    | "cmp", [.atom op, a, b] => do some (.cmp (← CmpOp.ofWire op) (← ofSx a) (← ofSx b))
    | "and", [a, b] => do some (.land (← ofSx a) (← ofSx b))
    | "or", [a, b] => do some (.lor (← ofSx a) (← ofSx b))
    | "not", [a] => do some (.lnot (← ofSx a))
    | "if", [c, t, e] => do some (.ite (← ofSx c) (← ofSx t) (← ofSx e))
    | "reduce", [.atom op, .atom v, lo, hi, body] => do
      some (.reduce (← RedOp.ofWire op) v (← ofSx lo) (← ofSx hi) (← ofSx body))
    | "call", (.atom f :: as) => do some (.call f (← as.mapM SExpr.ofSx))
    | "cast", [.atom dt, a] => do some (.cast dt (← ofSx a))
    | _, _ => none
  | _ => none

partial def SExpr.toSx : SExpr → Sx
  | .int n => .list [.atom "int", .atom (toString n)]
  | .bool b => .list [.atom "bool", .atom (if b then "#t" else "#f")]
  | .rat p q => .list [.atom "rat", .atom (toString p), .atom (toString q)]
  | .nan => .list [.atom "nan"]
  | .idx k => .list [.atom "idx", .atom (toString k)]
  | .var x => .list [.atom "var", .atom x]
  | .sub a ix => .list (.atom "sub" :: .atom a :: ix.map toSx)
  | .add a b => .list [.atom "add", toSx a, toSx b]
  | .mul a b => .list [.atom "mul", toSx a, toSx b]
  | .quot a b => .list [.atom "quot", toSx a, toSx b]
  | .fdiv a b => .list [.atom "fdiv", toSx a, toSx b]
  | .rem a b => .list [.atom "rem", toSx a, toSx b]
  | .pow a b => .list [.atom "pow", toSx a, toSx b]
  | .cmp op a b => .list [.atom "cmp", .atom op.toWire, toSx a, toSx b]
  | .land a b => .list [.atom "and", toSx a, toSx b]
  | .lor a b => .list [.atom "or", toSx a, toSx b]
  | .lnot a => .list [.atom "not", toSx a]
  | .ite c t e => .list [.atom "if", toSx c, toSx t, toSx e]
  | .reduce op v lo hi body =>
    .list [.atom "reduce", .atom op.toWire, .atom v, toSx lo, toSx hi, toSx body]
  | .call f as => .list (.atom "call" :: .atom f :: as.map toSx)
  | .cast dt a => .list [.atom "cast", .atom dt, toSx a]

/-- `(name (shape…) (values…))` -/
def parseBinding (x : Sx) : Option (String × Arr Val) := do
  match x with
  | .list [.atom name, shp, .list vals] =>
    let s ← shp.asNats?
    let vs ← vals.mapM fun v => v.asAtom? >>= Val.ofWire
    some (name, Arr.ofList s vs .undef)
  | _ => none

end Pt

/-
  PtModel.EinsumLower — model of `ToIndexLambdaMixin.map_einsum`
  (`pytato/transform/lower_to_index_lambda.py`) and of the normalisation of an
  einsum specification (`pytato/array.py: einsum`), plus the reference
  semantics of an einsum over the evaluator's values.

  The expression: the product (left fold) of the subscripts `_in{k}[…]` in
  operand order — per operand axis: `0` if the operand's axis length differs
  from the einsum axis' length (broadcast-unit axis), `_d` for output axis `d`,
  `_r{j}` for reduction axis `j` — wrapped in `Reduce(sum)` over every
  reduction axis `j` with bounds `0 ≤ _r{j} < axis_len(j)`: the bound is the
  length of the EINSUM axis (the real code takes it from an operand in which the
  axis is not a broadcast-unit axis), not of whichever operand mentions it first.
  No `Reduce` when there is no reduction axis.  (Wire format: a multi-variable
  `Reduce` is nested, first variable in sorted NAME order outermost; the model
  nests in numeric order, the same thing for fewer than 10 reduction axes.)
-/
import PtModel.Scalar
import PtModel.Lower
import PtModel.Einsum
namespace Pt

namespace Lower

/-- name of the reduction index of reduction axis `j` -/
def rName (j : Nat) : String := "_r" ++ toString j

/-- the index expression for an operand axis of length `p.2` accessed as `p.1` -/
def einsumIx (tbl : List (EAxis × Nat)) (p : EAxis × Nat) : SExpr :=
  if p.2 ≠ Spec.axisLen tbl p.1 then .int 0
  else match p.1 with
    | .elem j => ivar j
    | .red j => .var (rName j)

/-- the subscript of operand `k` -/
def einsumSubscript (tbl : List (EAxis × Nat)) (k : Nat) (d : List EAxis) (s : Shape) : SExpr :=
  .sub (inName k) ((d.zip s).map (einsumIx tbl))

/-- the subscripts of the operands numbered `k, k+1, …` -/
def einsumSubscripts (tbl : List (EAxis × Nat)) : Nat → List (List EAxis × Shape) → List SExpr
  | _, [] => []
  | k, (d, s) :: rest => einsumSubscript tbl k d s :: einsumSubscripts tbl (k + 1) rest

/-- `reduce(operator.mul, args[1:], args[0])` -/
def mulFold : List SExpr → SExpr
  | [] => .int 1        -- unreachable: an einsum has at least one operand
  | t :: ts => ts.foldl .mul t

/-- the reduction axes that occur in the descriptors, ascending -/
def redAxes (descrs : List (List EAxis)) : List Nat :=
  (List.range (Spec.numRed descrs)).filter fun j => (descrs.flatMap id).contains (.red j)

/-- `Reduce(body, sum, {_r{j}: (0, axis_len(j)) …})`, first axis outermost -/
def wrapReduces (tbl : List (EAxis × Nat)) : List Nat → SExpr → SExpr
  | [], body => body
  | j :: js, body =>
    .reduce .sum (rName j) (.int 0) (.int (Spec.axisLen tbl (.red j) : Nat)) (wrapReduces tbl js body)

/-- `map_einsum(...).expr` -/
def einsum (descrs : List (List EAxis)) (shapes : List Shape) : SExpr :=
  let tbl := Spec.axisLenTable descrs shapes
  wrapReduces tbl (redAxes descrs) (mulFold (einsumSubscripts tbl 0 (descrs.zip shapes)))

/-! ### `pt.einsum`: from the subscript string to access descriptors -/

/-- descriptor of an index letter: its position in the output spec, or its
    reduction number (`seen` = the reduction letters met so far, in order) -/
def letterDescr (out : List Char) (seen : List Char) (c : Char) : EAxis × List Char :=
  if out.contains c then (.elem (out.idxOf c), seen)
  else if seen.contains c then (.red (seen.idxOf c), seen)
  else (.red seen.length, seen ++ [c])

def specDescr (out : List Char) : List Char → List Char → List EAxis × List Char
  | [], seen => ([], seen)
  | c :: cs, seen =>
    let r := letterDescr out seen c
    let rest := specDescr out cs r.2
    (r.1 :: rest.1, rest.2)

def specsDescrs (out : List Char) : List (List Char) → List Char → List (List EAxis)
  | [], _ => []
  | s :: ss, seen =>
    let r := specDescr out s seen
    r.1 :: specsDescrs out ss r.2

/-- access descriptors of `pt.einsum("in0,in1,…->out", …)`: output axes numbered by
    position in `out`; reduction axes numbered in order of first appearance -/
def einsumDescrs (ins : List (List Char)) (out : List Char) : List (List EAxis) :=
  specsDescrs out ins []

end Lower

namespace Spec

/-- iterated sum `Σ_{r_0 < n_0} Σ_{r_1 < n_1} … f [r_0, r_1, …]`, each sum as the
    evaluator folds a `Reduce(sum)`; no summation at all for an empty shape -/
def sumOver : Shape → (Idx → Val) → Val
  | [], f => f []
  | n :: ns, f => RedOp.sum.fold ((List.range n).map fun x => sumOver ns fun r => f (x :: r))

/-- product of the operands' elements, left to right -/
def mulFoldV : List Val → Val
  | [] => .i 1
  | v :: vs => vs.foldl Val.mul v

/-- the einsum of `args` (explicit mode, access descriptors as in `PtModel.Einsum`)
    over the evaluator's values:
    `out[i] = Σ_r Π_k args[k][ index of operand k for (i, r) ]` -/
def einsumV (descrs : List (List EAxis)) (nout : Nat) (args : List (Arr Val)) : Arr Val :=
  let tbl := axisLenTable descrs (args.map (·.shape))
  let redShape : Shape := (List.range (numRed descrs)).map fun k => axisLen tbl (.red k)
  ⟨(List.range nout).map fun k => axisLen tbl (.elem k),
   fun i => sumOver redShape fun r =>
     mulFoldV ((descrs.zip args).map fun p => p.2.get (operandIdx tbl p.1 p.2.shape i r))⟩

end Spec
end Pt

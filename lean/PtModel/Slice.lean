/-
  PtModel.Slice — model of pytato's slice normalisation
  (`pytato/utils.py: _normalize_slice, _normalized_slice_len`) next to a
  transliteration of CPython's `PySlice_Unpack` + `PySlice_AdjustIndices`
  (Objects/sliceobject.c), which is the specification of what `a[start:stop:step]`
  selects.
-/
import PtModel.Basic
namespace Pt

structure NSlice where
  start : Int
  stop : Int
  step : Int
deriving Repr, DecidableEq

/-- one bound of `_normalize_slice` for an integer axis length `n`
    (the code treats `start` and `stop` identically). -/
def ptNormBound (b : Int) (step n : Int) : Int :=
  if -n ≤ b ∧ b < n then pyMod b n
  else if b ≥ n then (if step > 0 then n else n - 1)
  else (if step > 0 then 0 else -1)

/-- `_normalize_slice(slice(start, stop, step), n)`; `step` is already defaulted
    to 1 and is non-zero (the code raises `ValueError` for 0 before this point). -/
def ptNormSlice (start stop : Option Int) (step n : Int) : NSlice :=
  let defStart := if step > 0 then 0 else n - 1
  let defStop := if step > 0 then n else -1
  { start := match start with | none => defStart | some b => ptNormBound b step n
    stop := match stop with | none => defStop | some b => ptNormBound b step n
    step := step }

/-- `_normalized_slice_len` for integer components. -/
def ptSliceLen (s : NSlice) : Int :=
  if s.step > 0 then
    (if s.stop - s.start ≥ 0 then pyDiv (s.stop - s.start + s.step - 1) s.step else 0)
  else
    (if s.start - s.stop ≥ 0 then pyDiv (s.start - s.stop - s.step - 1) (-s.step) else 0)

/-- CPython: `PySlice_AdjustIndices` for one bound. -/
def cpyAdjustBound (b : Int) (step n : Int) : Int :=
  if b < 0 then
    (if b + n < 0 then (if step < 0 then -1 else 0) else b + n)
  else if b ≥ n then (if step < 0 then n - 1 else n)
  else b

/-- CPython `PySlice_Unpack` defaults followed by `PySlice_AdjustIndices`
    (unbounded integers, so `PY_SSIZE_T_MAX/MIN` clip to `n`, `n-1`, `-1`). -/
def cpyAdjust (start stop : Option Int) (step n : Int) : NSlice :=
  { start := match start with
      | none => if step < 0 then n - 1 else 0
      | some b => cpyAdjustBound b step n
    stop := match stop with
      | none => if step < 0 then -1 else n
      | some b => cpyAdjustBound b step n
    step := step }

/-- CPython's slice length (return value of `PySlice_AdjustIndices`);
    C division of non-negative operands = `Int.tdiv` = `/`. -/
def cpyLen (s : NSlice) : Int :=
  if s.step < 0 then
    (if s.stop < s.start then (s.start - s.stop - 1) / (-s.step) + 1 else 0)
  else
    (if s.start < s.stop then (s.stop - s.start - 1) / s.step + 1 else 0)

/-- the source indices a normalised slice selects, in order -/
def NSlice.indices (s : NSlice) (len : Nat) : List Int :=
  (List.range len).map fun (k : Nat) => s.start + s.step * (k : Int)

end Pt

namespace Pt

/-- `_map_index_base._rec_idx` (pytato/target/python/numpy_like.py): the Python
    slice `lower:upper:step` emitted for a normalised slice of an axis of length
    `n`; `none` = omitted. -/
def resynthSlice (s : NSlice) (n : Int) : Option Int × Option Int × Int :=
  if s.step > 0 then
    (if s.start = 0 then none else some s.start,
     if s.stop = n then none else some s.stop,
     s.step)
  else
    (if s.start = n - 1 then none
     else if s.start < 0 then some (s.start - n) else some s.start,
     if s.stop = -1 then none else some s.stop,
     s.step)

/-- the range of `_normalize_slice` -/
def NSlice.IsNorm (s : NSlice) (n : Int) : Prop :=
  (s.step > 0 ∧ 0 ≤ s.start ∧ s.start ≤ n ∧ 0 ≤ s.stop ∧ s.stop ≤ n) ∨
  (s.step < 0 ∧ -1 ≤ s.start ∧ s.start ≤ n - 1 ∧ -1 ≤ s.stop ∧ s.stop ≤ n - 1)

end Pt

/-
  PtModel.SymShape — model of pytato's SHAPE INFERENCE for the node kinds that
  admit symbolic axes: every axis length is an affine expression (`Pt.AExpr`) in
  the size parameters and every decision about lengths is one of the two real
  decision procedures modelled in `PtModel.Affine`:

    `affEq`     = `are_shape_components_equal`   (equal for ALL valuations)
    `isNonNeg`  = `_is_non_negative`             (≥ 0 for ALL valuations)

  Kinds: elementwise / broadcast (`get_shape_after_broadcasting`), `where`,
  transpose, roll, stack, concatenate, einsum (axis-length table with length-1
  broadcasting and the consistency check of `_normalize_einsum_in_subscript`),
  reductions, basic indexing (integers and slices, `_normalize_slice` +
  `_normalized_slice_len` with its sign reasoning), full / zeros / ones,
  expand_dims, broadcast_to, pad.

  A result is `none` when the real code raises.  Slicing a symbolic axis yields a
  floor division (`(n + step - 1) // step`), which is not affine: result dims of
  indexing are `QExpr`.
-/
import PtModel.Affine
import PtModel.Shape
import PtModel.Slice
import PtModel.Spec
import PtModel.Reduce
import PtModel.Einsum
namespace Pt
namespace Sym

/-- a symbolic shape: one affine expression per axis -/
abbrev SShape := List AExpr

/-- the concrete shape at a valuation of the size parameters -/
def concr (v : String → Nat) (s : SShape) : Shape := s.map fun d => (d.eval v).toNat

/-- the valuation makes every axis length non-negative -/
def Adm (v : String → Nat) (s : SShape) : Prop := ∀ d ∈ s, 0 ≤ d.eval v

/-- `are_shape_components_equal(d, 1)` -/
def isOne (d : AExpr) : Bool := affEq d (.lit 1)

/-- a Python `int` (not an array expression) -/
def isLit : AExpr → Bool
  | .lit _ => true
  | _ => false

/-- `are_shapes_equal` -/
def shapesEq : SShape → SShape → Bool
  | [], [] => true
  | a :: as, b :: bs => affEq a b && shapesEq as bs
  | _, _ => false

/-- STRUCTURAL equality of shape components (`==` on pytato expressions) -/
def AExpr.beq : AExpr → AExpr → Bool
  | .lit a, .lit b => a == b
  | .param x, .param y => x == y
  | .add a b, .add c d => AExpr.beq a c && AExpr.beq b d
  | .sub a b, .sub c d => AExpr.beq a c && AExpr.beq b d
  | .scale k a, .scale l b => k == l && AExpr.beq a b
  | _, _ => false

def shapesBeq : SShape → SShape → Bool
  | [], [] => true
  | a :: as, b :: bs => AExpr.beq a b && shapesBeq as bs
  | _, _ => false

/-! ### broadcasting (`get_shape_after_broadcasting`), `where` -/

/-- `_get_result_axis_length`, folded over the operands' lengths of one axis -/
def axisLenSym : AExpr → List AExpr → Option AExpr
  | cur, [] => some cur
  | cur, d :: rest =>
    if affEq d cur || isOne d then axisLenSym cur rest
    else if isOne cur then axisLenSym d rest
    else none

def axisSym : List AExpr → Option AExpr
  | [] => some (.lit 1)
  | d :: ds => axisLenSym d ds

/-- left-pad with the literal 1 to rank `r` -/
def padS (r : Nat) (s : SShape) : SShape := List.replicate (r - s.length) (.lit 1) ++ s

/-- `get_shape_after_broadcasting(shapes)` -/
def broadcast (shapes : List SShape) : Option SShape :=
  let r := (shapes.map List.length).foldl max 0
  let padded := shapes.map (padS r)
  (List.range r).mapM fun i => axisSym (padded.map (·.getD i (.lit 1)))

/-- `pt.where(c, x, y)` -/
def where_ (c x y : SShape) : Option SShape := broadcast [c, x, y]

/-! ### transpose, roll, stack, concatenate -/

/-- `pt.transpose(a, perm)`: `perm` must be a permutation of the axes -/
def transpose (s : SShape) (perm : List Nat) : Option SShape :=
  if perm.length = s.length ∧ perm.all (· < s.length) ∧ (List.range s.length).all (perm.contains ·) then
    some (perm.map fun p => s.getD p (.lit 0))
  else none

/-- `pt.roll(a, shift, axis)` -/
def roll (s : SShape) (axis : Nat) : Option SShape := if axis < s.length then some s else none

/-- `pt.stack(arrays, axis)`: all shapes equal (`are_shapes_equal`) -/
def stack (shapes : List SShape) (axis : Nat) : Option SShape :=
  match shapes with
  | [] => none
  | s0 :: rest =>
    if rest.all (fun s => shapesEq s s0) ∧ axis ≤ s0.length then
      some (s0.take axis ++ [.lit (shapes.length : Nat)] ++ s0.drop axis)
    else none

/-- `ary.shape[:axis] + ary.shape[axis+1:]` -/
def exceptAxis {α : Type} (axis : Nat) (s : List α) : List α := s.take axis ++ s.drop (axis + 1)

/-- Python's `sum(lengths)`: `((0 + d0) + d1) + …` -/
def sumDims (ds : List AExpr) : AExpr := ds.foldl (fun acc d => .add acc d) (.lit 0)

/-- `pt.concatenate(arrays, axis)`: the shapes without the axis are compared with
    Python's tuple `!=`, i.e. STRUCTURALLY (not with `are_shapes_equal`).  Operands
    of a different rank whose shapes without the axis coincide pass that test in the
    real code, but the node then has no shape (`.shape` raises IndexError): the
    model refuses them. -/
def concat (shapes : List SShape) (axis : Nat) : Option SShape :=
  match shapes with
  | [] => none
  | s0 :: rest =>
    if rest.all (fun s => decide (s.length = s0.length) && shapesBeq (exceptAxis axis s) (exceptAxis axis s0))
        ∧ axis < s0.length then
      some (s0.set axis (sumDims (shapes.map fun s => s.getD axis (.lit 0))))
    else none

/-! ### reductions -/

/-- keep the entries whose mask bit is `b` -/
def maskS {α : Type} (b : Bool) : List Bool → List α → List α
  | m :: ms, n :: ns => if m = b then n :: maskS b ms ns else maskS b ms ns
  | _, _ => []

/-- `pt.sum(a, axis)` etc.: axes in range, and every REDUCED axis length must be a
    Python int ("Parametric shapes for reduction axes not yet supported") -/
def reduce (s : SShape) (axes : Option (List Nat)) : Option SShape :=
  let mask := Lower.redMask s.length axes
  if (match axes with | none => false | some l => l.any (· ≥ s.length)) then none
  else if (maskS true mask s).all isLit then some (maskS false mask s)
  else none

/-! ### full / zeros / ones, expand_dims, broadcast_to, pad -/

/-- `normalize_shape`: a Python int must be non-negative; an expression is taken as is -/
def normShape (dims : SShape) : Option SShape :=
  if dims.all (fun d => match d with | .lit n => decide (0 ≤ n) | _ => true) then some dims else none

/-- `pt.full(shape, …)`, `pt.zeros`, `pt.ones` -/
def full (dims : SShape) : Option SShape := normShape dims

/-- `for ax in sorted(normalized_axis): new_shape.insert(ax, 1)` -/
def insertOnes {α : Type} (one : α) : List Nat → List α → List α
  | [], s => s
  | ax :: axs, s => insertOnes one axs (s.insertIdx ax one)

/-- insertion sort (the model of `sorted`) -/
def sortNat : List Nat → List Nat
  | [] => []
  | x :: xs => let r := sortNat xs; (r.filter (· < x)) ++ [x] ++ (r.filter (fun y => ¬ y < x))

/-- `pt.expand_dims(a, axis)`; `axes` as given (possibly negative) -/
def expandDims (s : SShape) (axes : List Int) : Option SShape :=
  let out : Int := (s.length + axes.length : Nat)
  if axes.all (fun ax => decide (-out ≤ ax ∧ ax < out)) then
    let norm := axes.map fun ax => (if ax ≥ 0 then ax else ax + out).toNat
    if norm.eraseDups.length = norm.length then some (insertOnes (.lit 1) (sortNat norm) s) else none
  else none

/-- `pt.broadcast_to(a, shape)` -/
def broadcastTo (s tgt : SShape) : Option SShape :=
  match normShape tgt with
  | none => none
  | some t =>
    if s.length ≤ t.length ∧
        ((s.zip (t.drop (t.length - s.length))).all fun p => affEq p.1 p.2 || isOne p.1) then some t
    else none

/-- `pt.pad(a, pad_width)` (widths already normalised to one pair per axis) -/
def pad (s : SShape) (widths : List (Nat × Nat)) : Option SShape :=
  if widths.length = s.length then
    some ((s.zip widths).map fun p => .add (.add p.1 (.lit (p.2.1 : Nat))) (.lit (p.2.2 : Nat)))
  else none

/-! ### einsum: axis-length table -/

/-- one step of `_normalize_einsum_in_subscript` / `_get_einsum_access_descr_to_axis_len`:
    record the length `d` of an operand axis accessed as `ax`; `none` = "Got conflicting lengths" -/
def axisLenStepS (tbl : List (EAxis × AExpr)) (ax : EAxis) (d : AExpr) : Option (List (EAxis × AExpr)) :=
  match tbl.find? (·.1 == ax) with
  | none => some (tbl ++ [(ax, d)])
  | some (_, seen) =>
    if affEq d seen then some tbl
    else if isOne d then some tbl
    else if isOne seen then some (tbl.map fun (a, m) => if a == ax then (a, d) else (a, m))
    else none

def operandStepS : List (EAxis × AExpr) → List (EAxis × AExpr) → Option (List (EAxis × AExpr))
  | tbl, [] => some tbl
  | tbl, (ax, d) :: rest =>
    match axisLenStepS tbl ax d with
    | none => none
    | some t => operandStepS t rest

def tableS : List (EAxis × AExpr) → List (List EAxis × SShape) → Option (List (EAxis × AExpr))
  | tbl, [] => some tbl
  | tbl, (d, s) :: rest =>
    if d.length = s.length then
      match operandStepS tbl (d.zip s) with
      | none => none
      | some t => tableS t rest
    else none

def axisLenS (tbl : List (EAxis × AExpr)) (ax : EAxis) : AExpr :=
  ((tbl.find? (·.1 == ax)).map (·.2)).getD (.lit 1)

/-- `pt.einsum`: access descriptors (one list per operand), operand shapes,
    number of output axes; every output axis must occur in an operand -/
def einsum (descrs : List (List EAxis)) (shapes : List SShape) (nout : Nat) : Option SShape :=
  if descrs.length = shapes.length then
    match tableS [] (descrs.zip shapes) with
    | none => none
    | some tbl =>
      if (List.range nout).all (fun k => (tbl.find? (·.1 == EAxis.elem k)).isSome) then
        some ((List.range nout).map fun k => axisLenS tbl (.elem k))
      else none
  else none

/-! ### basic indexing: integers and slices -/

/-- result lengths of indexing: affine, or a floor division by a positive literal -/
inductive QExpr where
  | aff (a : AExpr)
  | fdiv (a : AExpr) (k : Int)
deriving Repr, Inhabited

def QExpr.eval (v : String → Nat) : QExpr → Int
  | .aff a => a.eval v
  | .fdiv a k => pyDiv (a.eval v) k

/-- why the real code refuses an index -/
inductive Refusal where
  | zeroStep              -- ValueError
  | explicitBoundOnSymbolicAxis   -- NotImplementedError in `_normalize_slice`
  | signUnknown           -- NotImplementedError in `_normalized_slice_len`
  | intOutOfBounds        -- IndexError: not provably within the axis
  | rankMismatch
deriving Repr, DecidableEq, Inhabited

inductive SIdx where
  | int (k : Int)
  | slice (start stop : Option Int) (step : Int)
deriving Repr, Inhabited

/-- `_is_non_positive(e) = _is_non_negative(-e)` -/
def isNonPos (e : AExpr) : Bool := isNonNeg (.scale (-1) e)

/-- `_normalize_slice` + `_normalized_slice_len` on an axis of length `d` -/
def sliceLen (d : AExpr) (start stop : Option Int) (step : Int) : Except Refusal QExpr :=
  if step = 0 then .error .zeroStep
  else match d with
  | .lit n =>
    -- integer axis: the integer code path (`PtModel.Slice`)
    .ok (.aff (.lit (ptSliceLen (ptNormSlice start stop step n))))
  | _ =>
    if start.isSome ∨ stop.isSome then .error .explicitBoundOnSymbolicAxis
    else if step > 0 then
      -- start = 0, stop = d
      let diff : AExpr := .sub d (.lit 0)
      if isNonNeg diff then .ok (.fdiv (.sub (.add diff (.lit step)) (.lit 1)) step)
      else if isNonPos diff then .ok (.aff (.lit 0))
      else .error .signUnknown
    else
      -- start = d - 1, stop = -1
      let diff : AExpr := .sub (.sub d (.lit 1)) (.lit (-1))
      if isNonNeg diff then .ok (.fdiv (.sub (.sub diff (.lit step)) (.lit 1)) (-step))
      else if isNonPos diff then .ok (.aff (.lit 0))
      else .error .signUnknown

/-- an integer index `k` on an axis of length `d` is accepted iff
    `_is_non_negative(k + d)` and `_is_non_negative(d - 1 - k)` -/
def intOk (d : AExpr) (k : Int) : Bool :=
  isNonNeg (.add (.lit k) d) && isNonNeg (.sub (.sub d (.lit 1)) (.lit k))

/-- `a[ix]` with one index entry per axis -/
def index : SShape → List SIdx → Except Refusal (List QExpr)
  | [], [] => .ok []
  | d :: ds, .int k :: ix =>
    if intOk d k then index ds ix else .error .intOutOfBounds
  | d :: ds, .slice st sp step :: ix =>
    match sliceLen d st sp step with
    | .error e => .error e
    | .ok q => (index ds ix).map (q :: ·)
  | _, _ => .error .rankMismatch

end Sym

namespace Spec

/-- NumPy `broadcast_to(a, tgt)`: defined iff every axis of `a` (aligned at the
    end) equals the target's or is 1 -/
def npBroadcastTo (src tgt : Shape) : Option Shape :=
  if src.length ≤ tgt.length ∧
      ((src.zip (tgt.drop (tgt.length - src.length))).all fun p => p.1 == p.2 || p.1 == 1) then some tgt
  else none

/-- NumPy `stack`: all operand shapes equal -/
def npStack (shapes : List Shape) (axis : Nat) : Option Shape :=
  match shapes with
  | [] => none
  | s0 :: rest =>
    if rest.all (· == s0) ∧ axis ≤ s0.length then some (s0.take axis ++ [shapes.length] ++ s0.drop axis)
    else none

/-- NumPy `concatenate`: equal shapes except along `axis`; lengths add up -/
def npConcat (shapes : List Shape) (axis : Nat) : Option Shape :=
  match shapes with
  | [] => none
  | s0 :: rest =>
    if rest.all (fun s => Sym.exceptAxis axis s == Sym.exceptAxis axis s0 ∧ s.length = s0.length)
        ∧ axis < s0.length then
      some (s0.set axis ((shapes.map fun s => s.getD axis 0).sum))
    else none

/-- NumPy integer index within bounds -/
def npIntOk (n : Nat) (k : Int) : Bool := decide (-(n : Int) ≤ k ∧ k < n)

/-- NumPy: does the basic index apply (integers within bounds, non-zero steps)? -/
def basicOk : Shape → List BIdx → Bool
  | [], [] => true
  | n :: ns, .int k :: ix => npIntOk n k && basicOk ns ix
  | _ :: ns, .slice _ _ step :: ix => decide (step ≠ 0) && basicOk ns ix
  | _, _ => false

/-- einsum (NumPy): the lengths seen for one index must be broadcast-compatible -/
def einsumAxesOk (descrs : List (List EAxis)) (shapes : List Shape) : Bool :=
  let pairs := (descrs.zip shapes).flatMap fun p => p.1.zip p.2
  pairs.all fun p => (npAxisLen ((pairs.filter (·.1 == p.1)).map (·.2))).isSome

end Spec
end Pt

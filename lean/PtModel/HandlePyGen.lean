/-
  ptdriver query of the `pygen` family:
    (pygen (<node>…) <root> (<name>…))
  -> `program <arg,arg,…>` TAB line TAB line … TAB `#fragment yes|no <kinds>`
                                                  the model's emitted function body; whether the graph
                                                  is inside the fragment `pygen_sound` covers
   | `refuse <why>`                               the real generator raises a not-supported error
   | `unmodelled <why>`                           outside the modelled fragment
  Nodes (objects numbered by id in post-order; `<shape>` = `(d …)`, `?` = symbolic):
    (ph name <shape>) (dw name|#none <shape>) (sp name)
    (il (dtname tyname kind) <shape> <expr> ((binding child)…) (<lit>…))
        <lit>  = (<literal-sexpr> <form> #none|(rtname rtkind) #none|<form>)
        <form> = (isNp isComplex isNpFloating isBool dtname finite|nan|posinf|neginf negative "text")
    (roll child shift axis <shape>) (perm child (p…) <shape>) (reshape child order <shape>)
    (stack (c…) axis <shape>) (concat (c…) axis <shape>)
    (index child ((int k)|(slice a b c)|(arr child) …) <shape>)
    (indexnc child (…) <shape>)                     an AdvancedIndexInNoncontiguousAxes
    (einsum (((e|r k)…)…) (c…) <shape>) (alias child <shape>) (dict ((key child)…))
    (refused kind) (other kind)
-/
import PtModel.Sexp
import PtModel.PyGen
import PtModel.PyDenote
namespace Pt
open Py

def sxBool : Sx → Option Bool
  | .atom "#t" => some true
  | .atom "#f" => some false
  | _ => none

def parseOptShape : Sx → Option (List (Option Nat))
  | .list ds => ds.mapM fun
    | .atom "?" => some none
    | d => d.asNat?.map some
  | _ => none

def parseForm : Sx → Option ScalarForm
  | .list [a, b, c, d, .atom dt, .atom cls, e, .atom text] => do
    let k ← match cls with
      | "finite" => some NumClass.finite | "nan" => some .nan
      | "posinf" => some .posinf | "neginf" => some .neginf | _ => none
    some { isNp := ← sxBool a, isComplex := ← sxBool b, isNpFloating := ← sxBool c, isBool := ← sxBool d,
           dtname := dt, cls := k, negative := ← sxBool e, text := text }
  | _ => none

def parseLit : Sx → Option ScalarInfo
  | .list [l, f, rt, t] => do
    let rt' ← match rt with
      | .atom "#none" => some none
      | .list [.atom a, .atom b] => some (some (a, b))
      | _ => none
    let t' ← match t with
      | .atom "#none" => some none
      | x => (parseForm x).map some
    some { lit := ← SExpr.ofSx l, asIs := ← parseForm f, rt := rt', typed := t' }
  | _ => none

def parsePIdx : Sx → Option PIdx
  | .list [.atom "int", k] => k.asInt?.map .int
  | .list [.atom "slice", a, b, c] => do some (.slice ⟨← a.asInt?, ← b.asInt?, ← c.asInt?⟩)
  | .list [.atom "arr", c] => c.asNat?.map .arr
  | _ => none

def parseEDescr : Sx → Option EDescr
  | .list [.atom "e", k] => k.asNat?.map .elem
  | .list [.atom "r", k] => k.asNat?.map .redn
  | _ => none

def parsePGNode : Sx → Option PGNode
  | .list [.atom "ph", .atom n, s] => do some ⟨.placeholder n, ← parseOptShape s⟩
  | .list [.atom "dw", .atom n, s] => do
    some ⟨.dataWrapper (if n == "#none" then none else some n), ← parseOptShape s⟩
  | .list [.atom "sp", .atom n] => some ⟨.sizeParam n, []⟩
  | .list [.atom "il", .list [.atom a, .atom b, .atom c], s, e, .list binds, .list lits] => do
    let bs ← binds.mapM fun
      | .list [.atom n, c] => do some (n, ← c.asNat?)
      | _ => none
    some ⟨.indexLambda ⟨a, b, c⟩ (← SExpr.ofSx e) bs (← lits.mapM parseLit), ← parseOptShape s⟩
  | .list [.atom "roll", c, sh, ax, s] => do
    some ⟨.roll (← c.asNat?) (← sh.asInt?) (← ax.asInt?), ← parseOptShape s⟩
  | .list [.atom "perm", c, p, s] => do some ⟨.perm (← c.asNat?) (← p.asNats?), ← parseOptShape s⟩
  | .list [.atom "reshape", c, .atom o, s] => do some ⟨.reshape (← c.asNat?) o, ← parseOptShape s⟩
  | .list [.atom "stack", cs, ax, s] => do
    some ⟨.stack (← cs.asNats?) (← ax.asInt?), ← parseOptShape s⟩
  | .list [.atom "concat", cs, ax, s] => do
    some ⟨.concat (← cs.asNats?) (← ax.asInt?), ← parseOptShape s⟩
  | .list [.atom "index", c, .list ix, s] => do
    some ⟨.index (← c.asNat?) (← ix.mapM parsePIdx), ← parseOptShape s⟩
  | .list [.atom "indexnc", c, .list ix, s] => do
    some ⟨.indexNC (← c.asNat?) (← ix.mapM parsePIdx), ← parseOptShape s⟩
  | .list [.atom "einsum", .list ds, cs, s] => do
    let descr ← ds.mapM fun
      | .list d => d.mapM parseEDescr
      | _ => none
    some ⟨.einsum descr (← cs.asNats?), ← parseOptShape s⟩
  | .list [.atom "alias", c, s] => do some ⟨.alias (← c.asNat?), ← parseOptShape s⟩
  | .list [.atom "dict", .list items] => do
    let it ← items.mapM fun
      | .list [.atom k, c] => do some (k, ← c.asNat?)
      | _ => none
    some ⟨.dict it, []⟩
  | .list [.atom "refused", .atom k] => some ⟨.refused k, []⟩
  | .list [.atom "other", .atom k] => some ⟨.other k, []⟩
  | _ => none

def handlePyGen : List Sx → Option String
  | [.list nodes, root, .list names] => do
    let g ← nodes.mapM parsePGNode
    let ex ← names.mapM Sx.asAtom?
    let r ← root.asNat?
    match Py.generate g.toArray r ex with
    | .ok p =>
      -- last field: is the graph inside the fragment `pygen_sound` covers?
      let frag :=
        if Py.fragmentCheck g.toArray r then "#fragment yes"
        else "#fragment no " ++ ",".intercalate (Py.outsideFragment g.toArray r)
      some ("program " ++ ",".intercalate p.args ++ String.join (p.body.map fun s => "\t" ++ s.print)
        ++ "\t" ++ frag)
    | .refuse w => some ("refuse " ++ w)
    | .unmodelled w => some ("unmodelled " ++ w)
  | _ => none

end Pt

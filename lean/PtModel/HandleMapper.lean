/-
  ptdriver queries of the `mapper` family: `(mapper <query> args…)`.
  `none` = unparsable query.
-/
import PtModel.Sexp
namespace Pt

def handleMapper : List Sx → Option String
  | _ => none

end Pt

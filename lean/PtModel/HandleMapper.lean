/-
  ptdriver queries of the `mapper` family: `(mapper <query> args…)`.
  `none` = unparsable query.

  Wire format of a heap: `((kind (tag…) ((edge-class child)…) cls attrs) …)`, node i is the
  i-th entry (objects numbered by `id()` in post-order by the Python serialiser).
  An edge selection is given as the list of EXCLUDED `(kind edge-class)` pairs
  (`*` = any kind); everything else is followed.
-/
import PtModel.Sexp
import PtModel.Mapper
import PtModel.Analysis
import PtModel.Denote
namespace Pt

def parseNode : Sx → Option NodeData
  | .list [.atom kind, .list tags, .list kids, cls, attrs] => do
    let ts ← tags.mapM Sx.asAtom?
    let ks ← kids.mapM fun
      | .list [.atom l, c] => do some (l, ← c.asNat?)
      | _ => none
    some { kind := kind, tags := ts, kids := ks, cls := ← cls.asNat?, attrs := ← attrs.asNat? }
  | _ => none

def parseHeap : Sx → Option Heap
  | .list nodes => do some (← nodes.mapM parseNode).toArray
  | _ => none

def parsePairs : Sx → Option (List (String × String))
  | .list ps => ps.mapM fun
    | .list [.atom a, .atom b] => some (a, b)
    | _ => none
  | _ => none

def parseAtoms : Sx → Option (List String)
  | .list xs => xs.mapM Sx.asAtom?
  | _ => none

/-- selection from an exclusion list -/
def selOf (excl : List (String × String)) : String → String → Bool :=
  fun k l => !(excl.any fun p => (p.1 == "*" || p.1 == k) && p.2 == l)

/-- selection from an inclusion list -/
def onlyOf (incl : List (String × String)) : String → String → Bool :=
  fun k l => incl.any fun p => (p.1 == "*" || p.1 == k) && p.2 == l

def showIds (l : List Nat) : String := "(" ++ " ".intercalate (l.map toString) ++ ")"

def sortNats (l : List Nat) : List Nat := (l.toArray.qsort (· < ·)).toList

def countedOf (noncounted : List String) (nd : NodeData) : Bool := !(noncounted.contains nd.kind)

/-- tree size: 1 + Σ children (the number of per-node invocations of an UNCACHED mapper) -/
def sizeSpec (sel : String → String → Bool) : MapperSpec Nat :=
  { sel := sel, combine := fun _ vs => 1 + vs.sum }

def showOptNat : Option Nat → String
  | some n => toString n
  | none => "none"

def handleMapper : List Sx → Option String
  | [.atom "wf", hp] => do
    let h ← parseHeap hp
    some (if wfHeap h then "#t" else "#f")
  | [.atom "log", hp, root, ex] => do
    let h ← parseHeap hp
    some (showIds (visitLog (selOf (← parsePairs ex)) h (← root.asNat?)))
  | [.atom "cachedsize", hp, root, ex] => do
    -- memoised evaluation of the tree size (linear time, any sharing)
    let h ← parseHeap hp
    let r := runCached (sizeSpec (selOf (← parsePairs ex))) h (← root.asNat?)
    some s!"{showOptNat r.val} {r.log.length}"
  | [.atom "treesize", hp, root, ex] => do
    -- uncached tree recursion (exponential on ladders: small graphs only)
    let h ← parseHeap hp
    some (showOptNat (runTree (sizeSpec (selOf (← parsePairs ex))) h (← root.asNat?)))
  | [.atom "preds", hp, tbl] => do
    let h ← parseHeap hp
    let t := selOf (← parsePairs tbl)
    some ("(" ++ " ".intercalate ((List.range h.size).map fun v => showIds (preds t h v)) ++ ")")
  | [.atom "users", hp, root, walk, tbl] => do
    let h ← parseHeap hp
    let w := selOf (← parsePairs walk)
    let t := selOf (← parsePairs tbl)
    let r ← root.asNat?
    some ("(" ++ " ".intercalate ((List.range h.size).map fun u =>
      showIds (sortNats (usersList w t h r u))) ++ ")")
  | [.atom "topo", hp, root, ex, nc] => do
    let h ← parseHeap hp
    some (showIds (topo (selOf (← parsePairs ex)) (countedOf (← parseAtoms nc)) h (← root.asNat?)))
  | [.atom "counts", hp, root, ex, nc] => do
    let h ← parseHeap hp
    let s := selOf (← parsePairs ex)
    let c := countedOf (← parseAtoms nc)
    let r ← root.asNat?
    some s!"{countNodesDup s c h r} {countNodesNoDup s c h r}"
  | [.atom "typecount", hp, root, ex, .atom kind] => do
    let h ← parseHeap hp
    some (toString (typeCount (selOf (← parsePairs ex)) h (← root.asNat?) kind))
  | [.atom "tagcount", hp, root, ex, nc, tags] => do
    let h ← parseHeap hp
    let s := selOf (← parsePairs ex)
    let c := countedOf (← parseAtoms nc)
    let want ← parseAtoms tags
    let r ← root.asNat?
    let bad := (tcVisitBad (kidsFn s h) (fun j => c (h.node j) && hasTags want (h.node j)) (r + 1) r []).1
    some s!"{tagCount s c want h r} {bad}"
  | [.atom "materialized", hp, root, ex, matKinds, matTags, matEdges, inc] => do
    let h ← parseHeap hp
    let mk ← parseAtoms matKinds
    let mt ← parseAtoms matTags
    let me ← parsePairs matEdges
    let incl := match inc with
      | .atom "#t" => true
      | _ => false
    some (showIds (sortNats (materialized (selOf (← parsePairs ex))
      (fun nd => mk.contains nd.kind || mt.any fun t => nd.tags.contains t)
      (onlyOf me) h (← root.asNat?) incl)))
  | [.atom "transform", hp, root, ex, mode] => do
    let h ← parseHeap hp
    let s := selOf (← parsePairs ex)
    let r ← root.asNat?
    let subst : List (Nat × Nat) := match mode with
      | .list [.atom "subst", .list ps] => ps.filterMap fun
        | .list [a, b] => do some (← a.asNat?, ← b.asNat?)
        | _ => none
      | _ => []
    let relabel ← match mode with
      | .atom "id" => some relabelId
      | .list [.atom "subst", _] => some relabelId
      | .list [.atom "tag", .atom kind, .atom t] =>
        some (relabelWith fun nd => (nd.kind,
          if nd.kind == kind && !nd.tags.contains t then nd.tags ++ [t] else nd.tags))
      | .list [.atom "untag", .atom t] =>
        -- make nodes equal by dropping a tag (creates duplicates to be merged)
        some (relabelWith fun nd => (nd.kind, nd.tags.filter (· != t)))
      | _ => none
    let st := if subst.isEmpty then runTransform s relabel h r else runTransformSubst s relabel h r subst
    let img := (visitLog s h r).map fun i => match st.image i with
      | some j => s!"({i} {j})"
      | none => s!"({i} none)"
    -- size of the result heap, image of the root, #nodes of the result graph, #of those that are
    -- input nodes (reused objects), old ↦ new map
    let res := match st.image r with
      | some j => visitLog (fun _ _ => true) st.heap j
      | none => []
    let reused := (res.filter (· < h.size)).length
    some s!"{st.heap.size} {showOptNat (st.image r)} {res.length} {reused} ({" ".intercalate img})"
  -- C05: structural checkers on the combined heap (input + output graph of a REAL
  -- transformation, objects numbered by id)
  | [.atom "unfoldeq", hp, i, j] => do
    -- do nodes i and j unfold to the same tree?
    let h ← parseHeap hp
    let can := canon false h
    let a ← i.asNat?
    let b ← j.asNat?
    some (if can.getD a a == can.getD b b then "#t" else "#f")
  | [.atom "sametags", hp, i, j] => do
    -- … to the same tree up to (node) tags?
    let h ← parseHeap hp
    let can := canon true h
    let a ← i.asNat?
    let b ← j.asNat?
    some (if can.getD a a == can.getD b b then "#t" else "#f")
  | [.atom "canon", hp, .atom ign] => do
    let h ← parseHeap hp
    some (showIds (canon (ign == "#t") h).toList)
  | [.atom "dupfree", hp, root] => do
    let h ← parseHeap hp
    match dupPair h (← root.asNat?) with
    | none => some "#t"
    | some (a, b) => some s!"#f {a} {b}"
  | [.atom "extends", ha, hb] => do
    some (if extendsHeap (← parseHeap ha) (← parseHeap hb) then "#t" else "#f")
  | _ => none

end Pt

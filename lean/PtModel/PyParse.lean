/-
  PtModel.PyParse — the operator skeleton of a printed expression, as TOKENS, and a parser for
  Python's operator grammar on them (precedence climbing over `|`, `^`, `&`, `+ -`, `* / // %`,
  unary `-`, `**`, parentheses; atoms opaque).  Used to state that the printer of
  `PtModel.PyAst` puts parentheses exactly where Python's grammar needs them
  (`PtProofs.C14Print`: `print_parse_roundtrip`).

  The tokens do not distinguish unary from binary minus, and the parser does not look at the
  spacing the printer chooses — as Python's tokenizer does not.
-/
import PtModel.PyAst
namespace Pt
namespace Py

/-- operator skeleton: everything that is not a unary minus or a binary operator is an atom,
    represented by its printed text -/
inductive OpExpr where
  | atom (s : String)
  | neg (e : OpExpr)
  | bin (op : BinOp) (l r : OpExpr)
deriving Repr, DecidableEq

def skel : PyExpr → OpExpr
  | .neg e => .neg (skel e)
  | .bin op l r => .bin op (skel l) (skel r)
  | e => .atom (e.printAt 0)

inductive Tok where
  | atom (s : String)
  /-- an operator symbol; `spaced` = printed with a blank on either side (invisible to the parser) -/
  | sym (s : String) (spaced : Bool)
  | lp
  | rp
deriving Repr, DecidableEq

def Tok.spell : Tok → String
  | .atom s => s
  | .sym s true => " " ++ s ++ " "
  | .sym s false => s
  | .lp => "("
  | .rp => ")"

def spell : List Tok → String
  | [] => ""
  | t :: r => t.spell ++ spell r

def OpExpr.prec : OpExpr → Nat
  | .atom _ => precAtom
  | .neg _ => precFactor
  | .bin op _ _ => op.prec

def parenT (b : Bool) (ts : List Tok) : List Tok := if b then .lp :: (ts ++ [.rp]) else ts

/-- the printer of `PyAst` (`PyExpr.printAt`), to tokens -/
def toksAt : Nat → OpExpr → List Tok
  | _, .atom s => [.atom s]
  | ctx, .neg e => parenT (decide (precFactor < ctx)) (.sym "-" false :: toksAt precFactor e)
  | ctx, .bin op l r =>
    parenT (decide (op.prec < ctx))
      (toksAt op.leftPrec l ++ [.sym op.sym true] ++ toksAt op.rightPrec r)

/-! ## the parser -/

def allBinOps : List BinOp := [.add, .sub, .mult, .div, .floordiv, .mod, .pow, .bitor, .bitxor, .bitand]

def binOfSym (s : String) : Option BinOp := allBinOps.find? fun op => op.sym == s

mutual
/-- an operand, then every operator of precedence ≥ `p` that follows (fuel-indexed) -/
def pExpr : Nat → Nat → List Tok → Option (OpExpr × List Tok)
  | 0, _, _ => none
  | f + 1, p, ts =>
    match pUnary f ts with
    | some (lhs, r) => pLoop f p lhs r
    | none => none
/-- `factor: '-' factor | power`, `primary: ATOM | '(' expr ')'`: after a unary minus everything of
    precedence ≥ FACTOR belongs to its operand (`-a ** b` is `-(a ** b)`) -/
def pUnary : Nat → List Tok → Option (OpExpr × List Tok)
  | 0, _ => none
  | _ + 1, .atom s :: r => some (.atom s, r)
  | f + 1, .sym s _ :: r =>
    if s == "-" then
      match pExpr f precFactor r with
      | some (e, r') => some (.neg e, r')
      | none => none
    else none
  | f + 1, .lp :: r =>
    match pExpr f 0 r with
    | some (e, .rp :: r') => some (e, r')
    | _ => none
  | _ + 1, _ => none
/-- continue `lhs` with the binary operators of precedence ≥ `p`; the right operand of `op` is
    parsed at `op.rightPrec` (left-associative: one level up; `**`: its own level) -/
def pLoop : Nat → Nat → OpExpr → List Tok → Option (OpExpr × List Tok)
  | 0, _, _, _ => none
  | f + 1, p, lhs, ts =>
    match ts with
    | .sym s _ :: r =>
      match binOfSym s with
      | some op =>
        if p ≤ op.prec then
          match pExpr f op.rightPrec r with
          | some (rhs, r') => pLoop f p (.bin op lhs rhs) r'
          | none => none
        else some (lhs, ts)
      | none => some (lhs, ts)
    | _ => some (lhs, ts)
end

/-- the tokens parse to `o`, entirely, for every sufficiently large fuel -/
def ParsesTo (ts : List Tok) (o : OpExpr) : Prop := ∃ f0, ∀ f, f0 ≤ f → pExpr f 0 ts = some (o, [])

end Py
end Pt

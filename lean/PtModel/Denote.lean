/-
  PtModel.Denote — compositional denotations of heap nodes, the tree unfolding,
  and executable structural checkers used by the C05 correspondence (no Mathlib).

  A *denotation* is any function of the unfolded tree that is computed bottom-up:
  `D nd vs` gives the meaning of a node from its own data and the meanings of its
  children (in edge order).  `denote D H j` is the uncached tree recursion
  (`treeVal`) over ALL edges; by `cached_eq_tree` a memoised evaluation gives the
  same.  With `D := treeOf` the denotation is the unfolded tree itself, so a
  statement about `unfold` carries over to every denotation that is a function of
  the tree (values under a reference evaluator, shapes, dtypes, output names …).
-/
import PtModel.Mapper
namespace Pt

/-- follow every edge -/
def allSel : String → String → Bool := fun _ _ => true

def denote {γ : Type} (D : NodeData → List γ → γ) (H : Heap) (j : Nat) : Option γ :=
  treeVal (kidsFn allSel H) (fun i vs => D (H.node i) vs) (j + 1) j

/-- meaning of one node under a valuation of node numbers -/
def evalNode {γ : Type} (D : NodeData → List γ → γ) (val : Nat → Option γ) (nd : NodeData) :
    Option γ :=
  (allSome (nd.kids.map fun e => val e.2)).map (D nd)

/-- the tree a node unfolds to: sharing forgotten, node numbers forgotten -/
inductive Tree where
  | node (kind : String) (attrs : Nat) (tags : List String) (kids : List (String × Tree))

def treeOf (nd : NodeData) (ts : List Tree) : Tree :=
  .node nd.kind nd.attrs nd.tags ((nd.kids.map (·.1)).zip ts)

def unfold (H : Heap) (j : Nat) : Option Tree := denote treeOf H j

/-- `D` looks at the node's own data and edge labels only — not at child numbers,
    not at the serialiser's class annotation -/
def DLocal {γ : Type} (D : NodeData → List γ → γ) : Prop :=
  ∀ a b : NodeData, a.kind = b.kind → a.attrs = b.attrs → a.tags = b.tags →
    a.kids.map (·.1) = b.kids.map (·.1) → D a = D b

/-- the node function keeps (a sub-list of) the children it is given -/
def KidsSub (f : NodeData → NodeData) : Prop := ∀ nd e, e ∈ (f nd).kids → e ∈ nd.kids

/-- the node function preserves the node's meaning under every valuation of the
    children (the per-node congruence hypothesis of `transform_preserves_denote`) -/
def Preserves {γ : Type} (D : NodeData → List γ → γ) (f : NodeData → NodeData) : Prop :=
  ∀ (nd : NodeData) (val : Nat → Option γ), (∀ e, e ∈ nd.kids → (val e.2).isSome = true) →
    evalNode D val (f nd) = evalNode D val nd

/-! ## executable structural checkers (for graphs produced by the REAL transformations)

  `canon ignoreTags H` numbers the unfolded trees: `canon[i] = canon[j]` iff nodes `i` and
  `j` unfold to the same tree (computed bottom-up, children before parents, so linear in
  the number of nodes times the table size — never exponential like the tree itself). -/

def canonKey (ignoreTags : Bool) (can : Array Nat) (nd : NodeData) :
    String × Nat × List String × List (String × Nat) :=
  (nd.kind, nd.attrs, if ignoreTags then [] else nd.tags,
    nd.kids.map fun e => (e.1, can.getD e.2 e.2))

def canon (ignoreTags : Bool) (H : Heap) : Array Nat :=
  (H.foldl (fun (acc : Array Nat × Array (String × Nat × List String × List (String × Nat))) nd =>
      let k := canonKey ignoreTags acc.1 nd
      match acc.2.findIdx? (· == k) with
      | some j => (acc.1.push (acc.1.getD j j), acc.2.push k)
      | none => (acc.1.push acc.1.size, acc.2.push k))
    (#[], #[])).1

/-- no two distinct nodes reachable from `root` unfold to the same tree -/
def dupPair (H : Heap) (root : Nat) : Option (Nat × Nat) :=
  let can := canon false H
  let l := visitLog allSel H root
  l.findSome? fun a => (l.find? fun b => a < b && can.getD a a == can.getD b b).map fun b => (a, b)

/-- `B` extends `A`: the first `A.size` nodes are unchanged -/
def extendsHeap (A B : Heap) : Bool :=
  A.size ≤ B.size && (List.range A.size).all fun i => A.node i == B.node i

end Pt

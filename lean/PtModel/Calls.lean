/-
  PtModel.Calls — model of pytato's function calls and their inlining
  (`pytato/function.py: trace_call, FunctionDefinition.__call__`,
   `pytato/transform/calls.py: PlaceholderSubstitutor, Inliner`).

  A term is a placeholder, an opaque operation applied to terms, a call of a
  function definition (parameter names + body, single return) with bindings, or
  `error` (what `self.substitutions[name]` raising `KeyError` stands for).  A
  function body has its own name space: in a body only the parameters are bound.
-/
namespace Pt
namespace Calls

inductive Term where
  | placeholder (name : String)
  | error
  | op (f : String) (args : List Term)
  | call (params : List String) (body : Term) (bindings : List (String × Term))
deriving Repr, Inhabited

/-- association-list lookup (first binding wins) -/
def lookup {α : Type} (l : List (String × α)) (n : String) : Option α :=
  (l.find? (·.1 == n)).map (·.2)

section
variable {V : Type} (interp : String → List V → V) (undef : V)

/-- the environment of a function body: each parameter ↦ the value of its
    binding; everything else (and an unbound parameter) is undefined -/
def callEnv (params : List String) (vals : List (String × V)) : String → V :=
  fun p => if p ∈ params then (lookup vals p).getD undef else undef

mutual
/-- the value of a term; `interp` interprets the opaque operations -/
def denote : (String → V) → Term → V
  | env, .placeholder n => env n
  | _, .error => undef
  | env, .op f args => interp f (denoteList env args)
  | env, .call params body bindings =>
    denote (callEnv undef params (denoteBinds env bindings)) body
def denoteList : (String → V) → List Term → List V
  | _, [] => []
  | env, t :: ts => denote env t :: denoteList env ts
def denoteBinds : (String → V) → List (String × Term) → List (String × V)
  | _, [] => []
  | env, (n, t) :: bs => (n, denote env t) :: denoteBinds env bs
end
end

mutual
/-- `PlaceholderSubstitutor`: replace each placeholder by `σ name`, WITHOUT
    re-traversing what was substituted; nested calls keep their function
    definition (its body is another name space), only their bindings are rewritten -/
def substPlaceholders (σ : String → Term) : Term → Term
  | .placeholder n => σ n
  | .error => .error
  | .op f args => .op f (substList σ args)
  | .call params body bindings => .call params body (substBinds σ bindings)
def substList (σ : String → Term) : List Term → List Term
  | [] => []
  | t :: ts => substPlaceholders σ t :: substList σ ts
def substBinds (σ : String → Term) : List (String × Term) → List (String × Term)
  | [] => []
  | (n, t) :: bs => (n, substPlaceholders σ t) :: substBinds σ bs
end

/-- the substitution a call site defines: parameter ↦ its binding
    (`PlaceholderSubstitutor(expr.bindings)`; a name without binding is a `KeyError`) -/
def callSubst (params : List String) (bindings : List (String × Term)) : String → Term :=
  fun p => if p ∈ params then (lookup bindings p).getD .error else .error

mutual
/-- `Inliner` with every call tagged for inlining, bottom-up: the body and the
    bindings are inlined, then the bindings are substituted for the parameters -/
def inline : Term → Term
  | .placeholder n => .placeholder n
  | .error => .error
  | .op f args => .op f (inlineList args)
  | .call params body bindings =>
    substPlaceholders (callSubst params (inlineBinds bindings)) (inline body)
def inlineList : List Term → List Term
  | [] => []
  | t :: ts => inline t :: inlineList ts
def inlineBinds : List (String × Term) → List (String × Term)
  | [] => []
  | (n, t) :: bs => (n, inline t) :: inlineBinds bs
end

mutual
def callFree : Term → Bool
  | .placeholder _ => true
  | .error => true
  | .op _ args => callFreeList args
  | .call _ _ _ => false
def callFreeList : List Term → Bool
  | [] => true
  | t :: ts => callFree t && callFreeList ts
end

/-- the WRONG substitutor (Appendix-C mutation 48): `map_placeholder` recurses
    into the term it substitutes (`fuel` bounds the re-traversals) -/
def substRetraverse (σ : String → Term) : Nat → Term → Term
  | 0, t => substPlaceholders σ t
  | fuel + 1, t => substRetraverse σ fuel (substPlaceholders σ t)

/-! ### `trace_call`: parameter names vs binding names -/

def posName (i : Nat) : String := "in__pt_" ++ toString i
def kwName (kw : String) : String := "in_" ++ kw

/-- `frozenset(pl_arg.name for pl_arg in pl_args) | frozenset(pl_kwarg.name for …)` -/
def traceParams (nargs : Nat) (kws : List String) : List String :=
  (List.range nargs).map posName ++ kws.map kwName

/-- the keyword names of the call `function(**{pl.name: arg …}, **{pl_kwargs[kw].name: arg …})` -/
def traceBindingNames (nargs : Nat) (kws : List String) : List String :=
  ((List.range nargs).map fun i => (posName i, i)).map (·.1) ++ (kws.map fun kw => (kwName kw, kw)).map (·.1)

end Calls
end Pt

/-
  PtModel.Handle — query dispatcher of `ptdriver`: one s-expression in, one
  canonical answer line out.  Pure; all comparison logic lives in the Python
  harness.
-/
import PtModel.Sexp
import PtModel.Lower
import PtModel.Pad
import PtModel.EinsumLower
import PtModel.AdvIndex
import PtModel.Binop
import PtModel.Reduce
import PtModel.Construct
import PtModel.Spec
import PtModel.Affine
import PtModel.Names
import PtModel.Shape
import PtModel.HandleKernel
import PtModel.HandleRaise
import PtModel.HandlePyGen
import PtModel.HandleLoopyGen
import PtModel.HandleDist
import PtModel.HandleEq
import PtModel.HandleMapper
import PtModel.HandleSymShape
import PtModel.HandleContractShape
import PtModel.HandleCalls
namespace Pt

def showVals (vs : List Val) : String := "(" ++ " ".intercalate (vs.map Val.toWire) ++ ")"
def showNats (vs : List Nat) : String := "(" ++ " ".intercalate (vs.map toString) ++ ")"

def parseOrder : Sx → Option Lower.Order
  | .atom "C" => some .C
  | .atom "F" => some .F
  | _ => none

def parseNIdx : Sx → Option Lower.NIdx
  | .list [.atom "int", k] => k.asInt?.map .int
  | .list [.atom "slice", a, b, c] => do
    some (.slice ⟨← a.asInt?, ← b.asInt?, ← c.asInt?⟩)
  | _ => none

def parseBIdx : Sx → Option Spec.BIdx
  | .list [.atom "int", k] => k.asInt?.map .int
  | .list [.atom "slice", a, b, c] => do
    some (.slice (← a.asOptInt?) (← b.asOptInt?) (← c.asInt?))
  | _ => none

def parseArr (shp vals : Sx) : Option (Arr Val) := do
  let s ← shp.asNats?
  let vs ← (← vals.asList?).mapM fun v => v.asAtom? >>= Val.ofWire
  some (Arr.ofList s vs .undef)

def showArr (a : Arr Val) : String := s!"{showNats a.shape} {showVals a.toList}"

/-- an einsum index list `(i j k)` -/
def parseLetters : Sx → Option (List Char)
  | .list xs => xs.mapM fun
    | .atom a => a.toList.head?
    | _ => none
  | _ => none

def showEAxis : EAxis → String
  | .elem k => s!"e{k}"
  | .red k => s!"r{k}"

def parseNAIdx : Sx → Option NAIdx
  | .list [.atom "int", k] => k.asInt?.map .int
  | .list [.atom "slice", a, b, c] => do some (.slice ⟨← a.asInt?, ← b.asInt?, ← c.asInt?⟩)
  | .list [.atom "arr", s] => do some (.arr (← s.asNats?) false)
  | .list [.atom "arr", s, .atom "nonneg"] => do some (.arr (← s.asNats?) true)
  | _ => none

def parseRAIdx : Sx → Option RAIdx
  | .list [.atom "int", k] => k.asInt?.map .int
  | .list [.atom "slice", a, b, c] => do some (.slice (← a.asOptInt?) (← b.asOptInt?) (← c.asInt?))
  | .list [.atom "arr", s, vals] => do some (.arr (← parseArr s vals) false)
  | _ => none

def parseContig : Sx → Option Bool
  | .atom "C" => some true
  | .atom "N" => some false
  | _ => none

def binOpOfName : String → Option Raise.BinOp
  | "ADD" => some .add | "SUB" => some .sub | "MULT" => some .mult
  | "TRUEDIV" => some .truediv | "FLOORDIV" => some .floordiv | "MOD" => some .mod
  | "POWER" => some .power | "BITWISE_AND" => some .bitwiseAnd | "BITWISE_OR" => some .bitwiseOr
  | "BITWISE_XOR" => some .bitwiseXor | "LOGICAL_AND" => some .logicalAnd
  | "LOGICAL_OR" => some .logicalOr
  | "EQUAL" => some (.cmp .eq) | "NOT_EQUAL" => some (.cmp .ne) | "LESS" => some (.cmp .lt)
  | "LESS_EQUAL" => some (.cmp .le) | "GREATER" => some (.cmp .gt)
  | "GREATER_EQUAL" => some (.cmp .ge)
  | _ => none

/-- `(arr shape dtype [vals])` | `(np lit dtype)` | `(py lit)` -/
def parseBOpd : Sx → Option (BOpd × Option (Arr Val))
  | .list [.atom "arr", s, .atom dt] => do some (.arr (← s.asNats?) dt, none)
  | .list [.atom "arr", s, .atom dt, vals] => do
    let a ← parseArr s vals
    some (.arr a.shape dt, some a)
  | .list [.atom "np", c, .atom dt] => do some (.npScalar (← SExpr.ofSx c) dt, none)
  | .list [.atom "py", c] => do some (.pyScalar (← SExpr.ofSx c), none)
  | _ => none

def parseFlag : Sx → Option Bool
  | .atom "#t" => some true
  | .atom "#f" => some false
  | _ => none

/-- a numeric literal `(int n)` / `(rat p q)` as a rational -/
def parseRatLit (x : Sx) : Option Rat := do (Raise.litVal (← SExpr.ofSx x)).toRat?

def parseArrPair : Sx → Option (Arr Val)
  | .list [s, v] => parseArr s v
  | _ => none

def showShapeExpr : Option (Shape × SExpr) → String
  | some (s, e) => s!"{showNats s} {e.toSx.toStr}"
  | none => "none"

def handleLower : List Sx → Option String
  | [.atom "full", .atom dt, lit] => do
    -- (lower full float64 (rat 5 2))
    match Lower.fullLit dt (← SExpr.ofSx lit) with
    | some e => some e.toSx.toStr
    | none => some "none"
  | [.atom "eye", k] => do some (Lower.eyeExpr (← k.asInt?)).toSx.toStr
  | [.atom "arange", .atom kind, a, b, c] => do
    -- (lower arange int|float start stop step) -> shape and expression
    some (showShapeExpr (Lower.arange (kind == "int") (← parseRatLit a) (← parseRatLit b) (← parseRatLit c)))
  | [.atom "csr", nrows, ncols, evS, ecS, rsS, bS] => do
    some (showShapeExpr (Lower.csrMatmul (← nrows.asNat?) (← ncols.asNat?) (← evS.asNats?) (← ecS.asNats?)
      (← rsS.asNats?) (← bS.asNats?)))
  | [.atom "roll", shift, axis, nd, n] => do
    some (Lower.roll (← shift.asInt?) (← axis.asNat?) (← nd.asNat?) (← n.asNat?)).toSx.toStr
  | [.atom "perm", p] => do some (Lower.perm (← p.asNats?)).toSx.toStr
  | [.atom "stack", n, axis, nd] => do
    some (Lower.stack (← n.asNat?) (← axis.asNat?) (← nd.asNat?)).toSx.toStr
  | [.atom "concat", lens, axis, nd] => do
    some (Lower.concat (← lens.asNats?) (← axis.asNat?) (← nd.asNat?)).toSx.toStr
  | [.atom "basic", .list ix, shape] => do
    some (Lower.basic (← ix.mapM parseNIdx) (← shape.asNats?)).toSx.toStr
  | [.atom "reshape", o, old, new] => do
    match Lower.reshape (← parseOrder o) (← old.asNats?) (← new.asNats?) with
    | some e => some e.toSx.toStr
    | none => some "none"
  | [.atom "reduce", .atom op, shape, axes] => do
    -- (lower reduce sum (2 3 4) (0 2)) ; axes `None` = all
    let ax ← match axes with
      | .atom "None" => some none
      | x => x.asNats?.map some
    match Lower.reduceExpr (← RedOp.ofWire op) (← shape.asNats?) ax with
    | some e => some e.toSx.toStr
    | none => some "none"
  | [.atom "binop", .atom op, o1, o2, .atom res, cast, pow] => do
    -- (lower binop ADD (arr (2 3) int64) (py (rat 5 2)) float64 #t #f)
    match Lower.binop (← binOpOfName op) (← parseBOpd o1).1 (← parseBOpd o2).1 res (← parseFlag cast)
        (← parseFlag pow) with
    | some (_, e) => some e.toSx.toStr
    | none => some "none"
  | [.atom "where", o1, o2, o3] => do
    match Lower.where_ (← parseBOpd o1).1 (← parseBOpd o2).1 (← parseBOpd o3).1 with
    | some (_, e) => some e.toSx.toStr
    | none => some "none"
  | [.atom "neg", rank] => do some (Lower.negExpr (← rank.asNat?)).toSx.toStr
  | [.atom "not", rank] => do some (Lower.notExpr (← rank.asNat?)).toSx.toStr
  | [.atom "elemwise", .atom f, rank, .list args] => do
    let as ← args.mapM fun
      | .atom "arr" => some none
      | x => (SExpr.ofSx x).map some
    some (Lower.elemwiseCall f (← rank.asNat?) as).toSx.toStr
  | [.atom "advindex", c, .list ixs, shape] => do
    -- (lower advindex C|N ((int k)|(slice start stop step)|(arr shape [nonneg]) …) shape)
    -- `?` instead of C|N: the model decides contiguity itself (`_index_into`)
    let nix ← ixs.mapM parseNAIdx
    let cg ← match c with
      | .atom "?" => some (Lower.advContiguous nix)
      | _ => parseContig c
    match Lower.advIndex cg nix (← shape.asNats?) with
    | some e => some e.toSx.toStr
    | none => some "none"
  | [.atom "advcontig", .list ixs] => do
    some (if Lower.advContiguous (← ixs.mapM parseNAIdx) then "#t" else "#f")
  | [.atom "einsum", .list ins, out, .list shapes] => do
    -- (lower einsum ((i j) (j k)) (i k) ((2 3) (3 4))): the expression
    let d := Lower.einsumDescrs (← ins.mapM parseLetters) (← parseLetters out)
    some (Lower.einsum d (← shapes.mapM Sx.asNats?)).toSx.toStr
  | [.atom "einsumdescrs", .list ins, out] => do
    -- the access descriptors `pt.einsum` builds: `e<k>` output axis, `r<k>` reduction axis
    let d := Lower.einsumDescrs (← ins.mapM parseLetters) (← parseLetters out)
    some ("(" ++ " ".intercalate (d.map fun a => "(" ++ " ".intercalate (a.map showEAxis) ++ ")") ++ ")")
  | [.atom "pad", .list lens, .list widths, .list cvals] => do
    -- lens: axis lengths, `?` for a symbolic one; widths: ((before after)…); cvals: ((c0 c1)…)
    let ls ← lens.mapM fun
      | .atom "?" => some none
      | x => x.asNat?.map some
    let ws ← widths.mapM fun
      | .list [b, a] => do some (← b.asNat?, ← a.asNat?)
      | _ => none
    let cs ← cvals.mapM fun
      | .list [c0, c1] => do some (← SExpr.ofSx c0, ← SExpr.ofSx c1)
      | _ => none
    match Lower.pad ls ws cs with
    | some e => some e.toSx.toStr
    | none => some "none"
  | [.atom "bcast", s, r] => do
    some (Sx.list ((Lower.bcastSubscript (← s.asNats?) (← r.asNats?)).map SExpr.toSx)).toStr
  | _ => none

def handleSpec : List Sx → Option String
  | [.atom "roll", shift, axis, shp, vals] => do
    some (showArr (Spec.roll (← shift.asInt?) (← axis.asNat?) (← parseArr shp vals)))
  | [.atom "transpose", p, shp, vals] => do
    some (showArr (Spec.transpose (← p.asNats?) (← parseArr shp vals)))
  | [.atom "reshape", o, new, shp, vals] => do
    let a ← parseArr shp vals
    match ← parseOrder o with
    | .C => some (showArr (Spec.reshapeC (← new.asNats?) a))
    | .F => some (showArr (Spec.reshapeF (← new.asNats?) a))
  | [.atom "stack", axis, shp, .list arrs] => do
    let s ← shp.asNats?
    let as ← arrs.mapM fun v => parseArr shp v
    some (showArr (Spec.stack s (← axis.asNat?) as .undef))
  | [.atom "concatenate", axis, .list arrs] => do
    let as ← arrs.mapM fun
      | .list [shp, vals] => parseArr shp vals
      | _ => none
    some (showArr (Spec.concatenate (← axis.asNat?) as .undef))
  | [.atom "basic", .list ix, shp, vals] => do
    some (showArr (Spec.basicIndex (← ix.mapM parseBIdx) (← parseArr shp vals)))
  | [.atom "full", shape, .atom dt, lit] => do
    some (showArr (Spec.fullV (← shape.asNats?) dt (← SExpr.ofSx lit)))
  | [.atom "eye", n, m, k] => do some (showArr (Spec.eyeV (← n.asNat?) (← m.asNat?) (← k.asInt?)))
  | [.atom "arange", .atom kind, a, b, c] => do
    some (showArr (Spec.arangeV (kind == "int") (← parseRatLit a) (← parseRatLit b) (← parseRatLit c)))
  | [.atom "csrdense", nrows, ncols, ev, ec, rs] => do
    some (showArr (Spec.csrDense (← nrows.asNat?) (← ncols.asNat?) (← parseArrPair ev) (← parseArrPair ec)
      (← parseArrPair rs)))
  | [.atom "csr", nrows, ncols, ev, ec, rs, b] => do
    some (showArr (Spec.csrMatmulV (← nrows.asNat?) (← ncols.asNat?) (← parseArrPair ev) (← parseArrPair ec)
      (← parseArrPair rs) (← parseArrPair b)))
  | [.atom "reduce", .atom op, axes, shp, vals] => do
    let ax ← match axes with
      | .atom "None" => some none
      | x => x.asNats?.map some
    some (showArr (Spec.reduceV (← RedOp.ofWire op) ax (← parseArr shp vals)))
  | [.atom "binop", .atom op, o1, o2, .atom res, cast, pow] => do
    let (a1', v1) ← parseBOpd o1
    let (a2', v2) ← parseBOpd o2
    let bop ← binOpOfName op
    let a1 := if Lower.isLogical bop then Lower.logicalOpd a1' else a1'
    let a2 := if Lower.isLogical bop then Lower.logicalOpd a2' else a2'
    let r ← ptBroadcast [Lower.opdShape a1, Lower.opdShape a2]
    some (showArr (Spec.binopV bop a1 a2 v1 v2 r res (← parseFlag cast) (← parseFlag pow)))
  | [.atom "where", o1, o2, o3] => do
    let (a1, v1) ← parseBOpd o1
    let (a2, v2) ← parseBOpd o2
    let (a3, v3) ← parseBOpd o3
    let r ← ptBroadcast [Lower.opdShape a1, Lower.opdShape a2, Lower.opdShape a3]
    some (showArr (Spec.whereV a1 a2 a3 v1 v2 v3 r))
  | [.atom "advindex", c, .list ixs, shp, vals] => do
    -- (spec advindex C|N ((int k)|(slice st sp step)|(arr shape vals) …) shape vals)
    let a ← parseArr shp vals
    let raw ← ixs.mapM parseRAIdx
    let nix := Lower.normAIdx a.shape raw
    let B ← Raise.bcastShapes (Lower.advShapes nix)
    let adv := Lower.advPositions nix
    let cg ← match c with
      | .atom "?" => some (Lower.advContiguous nix)
      | _ => parseContig c
    some (showArr (Spec.advIndex cg B (adv.headD 0) (adv.getLastD 0) raw a))
  | [.atom "einsum", .list ins, out, .list arrs] => do
    let o ← parseLetters out
    let d := Lower.einsumDescrs (← ins.mapM parseLetters) o
    let as ← arrs.mapM fun
      | .list [shp, vals] => parseArr shp vals
      | _ => none
    some (showArr (Spec.einsumV d o.length as))
  | [.atom "pad", .list widths, .list cvals, shp, vals] => do
    let ws ← widths.mapM fun
      | .list [b, a] => do some (← b.asNat?, ← a.asNat?)
      | _ => none
    let cs ← cvals.mapM fun
      | .list [.atom c0, .atom c1] => do some (← Val.ofWire c0, ← Val.ofWire c1)
      | _ => none
    some (showArr (Spec.padConst ws cs (← parseArr shp vals)))
  | [.atom "broadcast", new, shp, vals] => do
    some (showArr (Spec.broadcastTo (← new.asNats?) (← parseArr shp vals)))
  | _ => none

partial def parseAExpr : Sx → Option AExpr
  | .list [.atom "lit", n] => n.asInt?.map .lit
  | .list [.atom "param", .atom x] => some (.param x)
  | .list [.atom "add", a, b] => do some (.add (← parseAExpr a) (← parseAExpr b))
  | .list [.atom "sub", a, b] => do some (.sub (← parseAExpr a) (← parseAExpr b))
  | .list [.atom "scale", k, a] => do some (.scale (← k.asInt?) (← parseAExpr a))
  | _ => none

def showBool (b : Bool) : String := if b then "#t" else "#f"

def handleAff : List Sx → Option String
  | [.atom "eq", a, b] => do some (showBool (affEq (← parseAExpr a) (← parseAExpr b)))
  | [.atom "nonneg", a] => do some (showBool (isNonNeg (← parseAExpr a)))
  | [.atom "nonpos", a] => do some (showBool (isNonNeg (.scale (-1) (← parseAExpr a))))
  | _ => none

/-- `(names (seed…) ((gen base) | (add name) | (conflicting name) …))` -/
def handleNames : List Sx → Option String
  | [.list seeds, .list ops] => do
    let ss ← seeds.mapM Sx.asAtom?
    let mut g : NameGen := ⟨ss.reverse, []⟩
    let mut out : Array String := #[]
    for op in ops do
      match op with
      | .list [.atom "gen", .atom b] =>
        match g.gen b with
        | some (n, g') => out := out.push n; g := g'
        | none => out := out.push "!exhausted"
      | .list [.atom "add", .atom n] =>
        match g.addName n with
        | some g' => out := out.push "ok"; g := g'
        | none => out := out.push "!conflict"
      | .list [.atom "conflicting", .atom n] =>
        out := out.push (if g.existing.contains n then "#t" else "#f")
      | _ => none
    some ("(" ++ " ".intercalate out.toList ++ ")")
  | _ => none

def handle (q : Sx) : String :=
  match q with
  | .list (.atom "evalil" :: shp :: e :: .list binds :: []) =>
    (match shp.asNats?, SExpr.ofSx e, binds.mapM parseBinding with
     | some s, some ex, some bs =>
       let idxs := allIdx s
       let vals := idxs.map fun i => eval (idxEnv i bs) ex
       let accs := idxs.flatMap fun i => accesses (idxEnv i bs) ex
       let nAff := (accs.filter (·.affine)).length
       let bad := accs.filter fun a => a.affine && !a.ok
       let firstBad := match bad with
         | [] => "-"
         | a :: _ => s!"{a.name}{showVals a.idx}"
       -- last field: out-of-bounds accesses of ANY kind (also data-dependent subscripts)
       s!"ok {showVals vals} {accs.length} {nAff} {bad.length} {firstBad} {(accs.filter fun a => !a.ok).length}"
     | _, _, _ => "err:parse")
  | .list [.atom "normslice", a, b, c, n] =>
    (match a.asOptInt?, b.asOptInt?, c.asInt?, n.asInt? with
     | some st, some sp, some step, some n =>
       let s := ptNormSlice st sp step n
       s!"ok {s.start} {s.stop} {s.step} {ptSliceLen s}"
     | _, _, _, _ => "err:parse")
  | .list (.atom "bcast" :: shapes) =>
    (match shapes.mapM Sx.asNats? with
     | some ss => (match ptBroadcast ss with
       | some r => "ok " ++ showNats r
       | none => "ok none")
     | none => "err:parse")
  | .list [.atom "resynth", a, b, c, n] =>
    (match a.asInt?, b.asInt?, c.asInt?, n.asInt? with
     | some st, some sp, some step, some n =>
       let r := resynthSlice ⟨st, sp, step⟩ n
       let sh (o : Option Int) : String := match o with | some v => toString v | none => "None"
       s!"ok {sh r.1} {sh r.2.1} {r.2.2}"
     | _, _, _, _ => "err:parse")
  | .list [.atom "cpyslice", a, b, c, n] =>
    (match a.asOptInt?, b.asOptInt?, c.asInt?, n.asInt? with
     | some st, some sp, some step, some n =>
       let s := cpyAdjust st sp step n
       s!"ok {s.start} {s.stop} {s.step} {cpyLen s}"
     | _, _, _, _ => "err:parse")
  | .list (.atom "lower" :: args) =>
    (match handleLower args with
     | some r => "ok " ++ r
     | none => "err:parse")
  | .list (.atom "spec" :: args) =>
    (match handleSpec args with
     | some r => "ok " ++ r
     | none => "err:parse")
  | .list (.atom "aff" :: args) =>
    (match handleAff args with
     | some r => "ok " ++ r
     | none => "err:parse")
  | .list (.atom "names" :: args) =>
    (match handleNames args with
     | some r => "ok " ++ r
     | none => "err:parse")
  | .list (.atom "raise" :: args) =>
    (match handleRaise args with
     | some r => "ok " ++ r
     | none => "err:parse")
  | .list (.atom "loopygen" :: args) =>
    (match handleLoopyGen args with
     | some r => "ok " ++ r
     | none => "err:parse")
  | .list (.atom "pygen" :: args) =>
    (match handlePyGen args with
     | some r => "ok " ++ r
     | none => "err:parse")
  | .list (.atom "kernel" :: args) =>
    (match handleKernel args with
     | some r => "ok " ++ r
     | none => "err:parse")
  | .list (.atom "dist" :: args) =>
    (match handleDist args with
     | some r => "ok " ++ r
     | none => "err:parse")
  | .list (.atom "eq" :: args) =>
    (match handleEq args with
     | some r => "ok " ++ r
     | none => "err:parse")
  | .list (.atom "mapper" :: args) =>
    (match handleMapper args with
     | some r => "ok " ++ r
     | none => "err:parse")
  | .list (.atom "symshape" :: args) =>
    (match handleSymShape args with
     | some r => "ok " ++ r
     | none => "err:parse")
  | .list (.atom "calls" :: args) =>
    (match handleCalls args with
     | some r => "ok " ++ r
     | none => "err:parse")
  | .list (.atom "cshape" :: args) =>
    (match handleContractShape args with
     | some r => "ok " ++ r
     | none => "err:parse")
  | .list [.atom "echo", x] => "ok " ++ x.toStr
  | _ => "err:unknown-query"

end Pt

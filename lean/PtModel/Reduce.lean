/-
  PtModel.Reduce — model of `pytato/reductions.py: _make_reduction_lambda`
  (`sum, prod, amax, amin, all, any`) and NumPy's reductions over a set of axes.

  For the array axes `0, 1, …` in order: a reduced axis is indexed by the next
  reduction variable `_r0, _r1, …` with bounds `0 ≤ _r < axis_len`, a kept axis by
  the next output index `_0, _1, …`; the expression is
  `Reduce(in[indices], op, bounds)` (wire: nested, `_r0` outermost).  With no
  axis to reduce the API returns its argument (no index lambda: `none` here);
  `amax`/`amin` (no `initial`) reject a zero-length reduction axis.
-/
import PtModel.Scalar
import PtModel.Lower
import PtModel.EinsumLower
namespace Pt

namespace Lower

/-- which axes are reduced: `axes = none` is `axis=None` (all) -/
def redMask (rank : Nat) (axes : Option (List Nat)) : List Bool :=
  (List.range rank).map fun d => match axes with | none => true | some l => l.contains d

/-- the subscript indices: `nr` / `no` = number of reduction / output indices used so far -/
def redIx : List Bool → Nat → Nat → List SExpr
  | [], _, _ => []
  | true :: m, nr, no => .var (rName nr) :: redIx m (nr + 1) no
  | false :: m, nr, no => ivar no :: redIx m nr (no + 1)

/-- lengths of the reduced (`b = true`) or kept (`b = false`) axes, in order -/
def maskShape (b : Bool) : List Bool → Shape → Shape
  | m :: ms, n :: ns => if m = b then n :: maskShape b ms ns else maskShape b ms ns
  | _, _ => []

/-- `Reduce(body, op, {_r<j>: (0, n_j)})`, `_r0` outermost -/
def wrapRed (op : RedOp) : Nat → Shape → SExpr → SExpr
  | _, [], body => body
  | j, n :: ns, body => .reduce op (rName j) (.int 0) (.int n) (wrapRed op (j + 1) ns body)

def needsNonEmpty : RedOp → Bool
  | .max | .min => true
  | _ => false

/-- `_make_reduction_lambda(op, a, axis)`: `none` when the API returns the array
    itself (nothing to reduce) or raises (axis out of range; empty `amax`/`amin`) -/
def reduceExpr (op : RedOp) (shape : Shape) (axes : Option (List Nat)) : Option SExpr :=
  let mask := redMask shape.length axes
  let rs := maskShape true mask shape
  if (match axes with | none => false | some l => l.any (· ≥ shape.length)) then none
  else if rs = [] then none
  else if needsNonEmpty op ∧ rs.contains 0 then none
  else some (wrapRed op 0 rs (.sub "in" (redIx mask 0 0)))

end Lower

namespace Spec

/-- iterated reduction `op_{r_0 < n_0} op_{r_1 < n_1} … f [r_0, r_1, …]`, each as the
    evaluator folds a `Reduce` (`sum`/`prod` from 0/1, `all`/`any` from true/false,
    `max`/`min` over the non-empty list of values) -/
def redOver (op : RedOp) : Shape → (Idx → Val) → Val
  | [], f => f []
  | n :: ns, f => op.fold ((List.range n).map fun x => redOver op ns fun r => f (x :: r))

/-- the index into the operand: reduced axes from `r`, kept axes from `i`, in order -/
def mergeIdx : List Bool → Idx → Idx → Idx
  | true :: m, i, x :: r => x :: mergeIdx m i r
  | false :: m, y :: i, r => y :: mergeIdx m i r
  | _, _, _ => []

/-- `numpy.<op>(a, axis=axes)` -/
def reduceV (op : RedOp) (axes : Option (List Nat)) (a : Arr Val) : Arr Val :=
  let mask := Lower.redMask a.shape.length axes
  ⟨Lower.maskShape false mask a.shape,
   fun i => redOver op (Lower.maskShape true mask a.shape) fun r => a.get (mergeIdx mask i r)⟩

end Spec
end Pt

/-
  PtModel.Mapper — F5: cached mappers over the expression heap (no Mathlib).

  The expression DAG is a heap `Array NodeData`; node `i` lists its children as
  `(edge label, child id)`.  The Python serialiser numbers *objects* (by `id()`)
  in post-order, so children are strictly below parents (`WFHeap`) and sharing /
  object identity are part of the model.

  A mapper is a `MapperSpec`: which edges it recurses into (`sel`, tied to the
  real mapper classes by the regenerated table `PtGen.Children`) and how it
  combines the children's results.  `runCached` is pytato's `CachedMapper.rec`:
  depth-first, a memo table keyed by node number, the per-node method invoked
  on a miss only.  The recursion is indexed by a fuel argument; `PtProofs`
  proves that fuel `root + 1` always suffices on a well-formed heap and that the
  result does not depend on the fuel (`dfs_fuel_irrel`, `visit_fuel_irrel`), so
  the fuel is a device of the definition, not a bound on the theorems.
-/
namespace Pt

/-! ## heap -/

structure NodeData where
  /-- pytato class name -/
  kind : String
  /-- canonical names of the tag *types* on the node -/
  tags : List String
  /-- `(edge label, child id)` in field order -/
  kids : List (String × Nat)
  /-- structural-equality class (number of the first equal object), as observed by the serialiser -/
  cls : Nat := 0
  /-- fingerprint class of all non-child, non-tag data of the node (expression, axis, dtype,
      name, …): two nodes with equal `kind`, `attrs`, `tags` and children are structurally equal -/
  attrs : Nat := 0
deriving Repr, DecidableEq, Inhabited

abbrev Heap := Array NodeData

/-- node `i`; an id outside the heap denotes a node without children
    (never consulted for a well-formed heap and an in-range root) -/
def Heap.node (h : Heap) (i : Nat) : NodeData :=
  match h[i]? with
  | some nd => nd
  | none => { kind := "", tags := [], kids := [] }

def Heap.edges (h : Heap) (i : Nat) : List (String × Nat) := (h.node i).kids

/-- children strictly below parents -/
def WFHeap (h : Heap) : Prop := ∀ i, ∀ e ∈ h.edges i, e.2 < i

def wfHeap (h : Heap) : Bool :=
  (List.range h.size).all fun i => (h.edges i).all fun e => decide (e.2 < i)

/-! ## generic memoised depth-first traversal over `kids : Nat → List Nat` -/

/-- the children function respects the heap order -/
def Below (kids : Nat → List Nat) : Prop := ∀ i, ∀ c ∈ kids i, c < i

/-- reachability through `kids` (reflexive, transitive) -/
inductive Reach (kids : Nat → List Nat) : Nat → Nat → Prop
  | refl (i : Nat) : Reach kids i i
  | step {i c j : Nat} : c ∈ kids i → Reach kids c j → Reach kids i j

/-- Set-only memoised DFS.  `vis` is the visited list, newest first; a node is
    added when its method *completes* (after its children), as in
    `CachedMapper.rec` / `CachedWalkMapper.rec`. -/
def dfs (kids : Nat → List Nat) : Nat → Nat → List Nat → List Nat
  | 0, _, vis => vis
  | f+1, i, vis =>
    if i ∈ vis then vis
    else i :: (kids i).foldl (fun v c => dfs kids f c v) vis

abbrev Memo (β : Type) := List (Nat × Option β)

def Memo.keys {β : Type} (m : Memo β) : List Nat := m.map (·.1)

/-- cached value of node `i` (`none`: not cached, or cached without a value) -/
def Memo.val? {β : Type} : Memo β → Nat → Option β
  | [], _ => none
  | (k, v) :: r, i => if k = i then v else Memo.val? r i

def allSome {β : Type} : List (Option β) → Option (List β)
  | [] => some []
  | none :: _ => none
  | some v :: r => (allSome r).map (v :: ·)

/-- Memoised DFS with values: `CachedMapper.rec`.  On a miss the children are
    mapped left to right (each through the cache), then the node's own method
    `comb i` is applied to the children's results and the result is cached.
    If a child's value were unavailable the node is cached *without* a value
    (explicit failure, never a made-up default); `cached_eq_tree` shows this
    cannot happen on a well-formed heap. -/
def visit {β : Type} (kids : Nat → List Nat) (comb : Nat → List β → β) :
    Nat → Nat → Memo β → Memo β
  | 0, _, memo => memo
  | f+1, i, memo =>
    if i ∈ memo.keys then memo
    else
      let memo' := (kids i).foldl (fun m c => visit kids comb f c m) memo
      (i, (allSome ((kids i).map fun c => memo'.val? c)).map (comb i)) :: memo'

/-- the uncached meaning: plain tree recursion, every path walked separately
    (exponential on ladders) -/
def treeVal {β : Type} (kids : Nat → List Nat) (comb : Nat → List β → β) : Nat → Nat → Option β
  | 0, _ => none
  | f+1, i => (allSome ((kids i).map fun c => treeVal kids comb f c)).map (comb i)

/-! ## mappers over a heap -/

structure MapperSpec (β : Type) where
  /-- `sel kind label`: does the mapper's method for `kind` recurse into edge `label`? -/
  sel : String → String → Bool
  /-- the per-node method, given the node and the children's results -/
  combine : NodeData → List β → β

/-- the children this mapper recurses into, in field order -/
def MapperSpec.kidsOf {β : Type} (m : MapperSpec β) (nd : NodeData) : List Nat :=
  (nd.kids.filter fun e => m.sel nd.kind e.1).map (·.2)

def kidsFn (sel : String → String → Bool) (h : Heap) (i : Nat) : List Nat :=
  ((h.edges i).filter fun e => sel (h.node i).kind e.1).map (·.2)

structure Run (β : Type) where
  /-- result for the root -/
  val : Option β
  /-- nodes in the order their per-node method completed (post-order) -/
  log : List Nat
  memo : Memo β

def runCached {β : Type} (m : MapperSpec β) (h : Heap) (root : Nat) : Run β :=
  let memo := visit (kidsFn m.sel h) (fun i vs => m.combine (h.node i) vs) (root + 1) root []
  { val := memo.val? root, log := memo.keys.reverse, memo := memo }

def runTree {β : Type} (m : MapperSpec β) (h : Heap) (root : Nat) : Option β :=
  treeVal (kidsFn m.sel h) (fun i vs => m.combine (h.node i) vs) (root + 1) root

/-- visit order only (what `CachedWalkMapper` computes) -/
def visitLog (sel : String → String → Bool) (h : Heap) (root : Nat) : List Nat :=
  (dfs (kidsFn sel h) (root + 1) root []).reverse

/-! ## transformations (CopyMapper family)

  A transformation is modelled by what it does to one node once its children
  have been mapped: the node function `f : NodeData → NodeData`.  The result
  graph lives in the same id space as the input (`heap ++ created nodes`), so
  "returns the argument itself" is `image = old id`.

  Because a cached mapper changes its state only when a node's method
  completes, and completion order is exactly the log of `runCached`, the
  transformation is the left fold of `tstep` over that log.

  `tstep` is `replace_if_different` + `TransformMapperCache.add`:
  * all children mapped to themselves and the data unchanged → the node itself;
  * otherwise, if an equal node was produced or met before → that first-seen one;
  * otherwise a new node is created. -/

structure TState where
  /-- input heap followed by the nodes created so far -/
  heap : Heap
  /-- old id ↦ result id, newest first -/
  map : List (Nat × Nat)
  /-- `_result_to_cached_result`: results seen so far (ids into `heap`) -/
  seen : List Nat
deriving Repr

def TState.image (s : TState) (i : Nat) : Option Nat :=
  (s.map.find? fun p => p.1 == i).map (·.2)

/-- structural equality of two nodes whose children are already canonical ids -/
def sameNode (a b : NodeData) : Bool :=
  a.kind == b.kind && a.attrs == b.attrs && a.tags == b.tags && a.kids == b.kids

/-- a node's children with every followed edge redirected to the child's result -/
def mapKids (sel : String → String → Bool) (s : TState) (nd : NodeData) : List (String × Nat) :=
  nd.kids.map fun e =>
    if sel nd.kind e.1 then
      match s.image e.2 with
      | some j => (e.1, j)
      | none => e
    else e

/-- what the mapper method builds for node `i`: the node function `f` applied to the node
    with its followed children redirected to their results.  `f` may change the kind, the
    tags, the attributes, and may drop children (e.g. dead-code elimination replacing a
    `zeros`-like lambda by a literal without bindings). -/
def candidate (sel : String → String → Bool) (f : NodeData → NodeData)
    (s : TState) (i : Nat) : NodeData :=
  f { s.heap.node i with kids := mapKids sel s (s.heap.node i) }

def tstep (sel : String → String → Bool) (f : NodeData → NodeData)
    (s : TState) (i : Nat) : TState :=
  match s.seen.find? fun j => sameNode (s.heap.node j) (candidate sel f s i) with
  | some j =>
    -- an equal result is already cached: the first-seen instance is reused
    { s with map := (i, j) :: s.map }
  | none =>
    if sameNode (candidate sel f s i) (s.heap.node i) then
      -- `replace_if_different` returned `expr` itself
      { s with map := (i, i) :: s.map, seen := i :: s.seen }
    else
      { heap := s.heap.push (candidate sel f s i),
        map := (i, s.heap.size) :: s.map, seen := s.heap.size :: s.seen }

def runTransform (sel : String → String → Bool) (f : NodeData → NodeData)
    (h : Heap) (root : Nat) : TState :=
  (visitLog sel h root).foldl (tstep sel f) { heap := h, map := [], seen := [] }

/-- the transformation with some nodes SUBSTITUTED (`subst = [(c, r), …]`: every use of `c` becomes
    `r`, as with `map_and_copy(expr, lambda e: r if e is c else e)`): the old ↦ new map is
    pre-seeded, the substituted nodes are not mapped themselves and their replacements count as
    results already seen -/
def runTransformSubst (sel : String → String → Bool) (f : NodeData → NodeData)
    (h : Heap) (root : Nat) (subst : List (Nat × Nat)) : TState :=
  ((visitLog sel h root).filter fun i => !(subst.any fun p => p.1 == i)).foldl (tstep sel f)
    { heap := h, map := subst, seen := subst.map (·.2) }

/-- the node function that changes nothing (CopyMapper, map_and_copy (fun x => x), deduplicate) -/
def relabelId (nd : NodeData) : NodeData := nd

/-- a node function that only rewrites kind and tags -/
def relabelWith (g : NodeData → String × List String) (nd : NodeData) : NodeData :=
  { nd with kind := (g nd).1, tags := (g nd).2 }

end Pt

/-
  PtModel.Kernel — model of the loopy kernels pytato generates
  (`pytato/target/loopy/codegen.py`): a list of statements, each a store to one
  array over a box of loop indices, optionally preceded by per-iteration scalar
  `lets` (the hoisted reduction bounds), with explicit dependencies.

  Semantics assumed of loopy: statements execute in any order consistent with
  the dependency edges; each statement runs its loop nest to completion;
  reductions are folds (already part of `eval`).
-/
import PtModel.Scalar
namespace Pt

structure KStmt where
  id : String
  lhs : String
  lhsIdx : List SExpr
  loops : List (String × SExpr × SExpr)      -- iname, lower bound, upper bound (exclusive)
  lets : List (String × SExpr)               -- private scalars, evaluated per iteration in order
  rhs : SExpr
  deps : List String
  noop : Bool := false
deriving Inhabited

abbrev Kernel := List KStmt
/-- the store: an association list, most recent binding first -/
abbrev Store := List (String × Arr Val)

def Store.get? (σ : Store) (x : String) : Option (Arr Val) := (σ.find? (·.1 == x)).map (·.2)

/-- write one element -/
def Arr.write (a : Arr Val) (i : Idx) (v : Val) : Arr Val :=
  ⟨a.shape, fun j => if j = i then v else a.get j⟩

def Store.write (σ : Store) (x : String) (i : Idx) (v : Val) : Store :=
  match σ.get? x with
  | some a => (x, a.write i v) :: σ
  | none => σ

/-- all iteration points of a loop nest: outer loops first; bounds may mention outer inames -/
def iterPoints (σ : Store) : List (String × SExpr × SExpr) → List (String × Int) → List (List (String × Int))
  | [], acc => [acc]
  | (v, lo, hi) :: rest, acc =>
    let env : Env := { pt := [], ix := acc, arr := σ }
    match (eval env lo).toInt?, (eval env hi).toInt? with
    | some l, some h =>
      (List.range (h - l).toNat).flatMap fun (k : Nat) => iterPoints σ rest ((v, l + (k : Int)) :: acc)
    | _, _ => []

/-- evaluate the `lets` in order, binding each as a 0-d array -/
def bindLets (ix : List (String × Int)) : List (String × SExpr) → Store → Store
  | [], σ => σ
  | (x, e) :: rest, σ =>
    let v := eval { pt := [], ix := ix, arr := σ } e
    bindLets ix rest ((x, ⟨[], fun _ => v⟩) :: σ)

/-- one iteration of a statement -/
def execPoint (s : KStmt) (σ : Store) (ix : List (String × Int)) : Store :=
  let σl := bindLets ix s.lets σ
  let env : Env := { pt := [], ix := ix, arr := σl }
  let v := eval env s.rhs
  match toNatIdx (evalList env s.lhsIdx) with
  | some i => σ.write s.lhs i v
  | none => σ

/-- run a statement's whole loop nest -/
def execStmt (σ : Store) (s : KStmt) : Store :=
  if s.noop then σ else (iterPoints σ s.loops []).foldl (execPoint s) σ

/-- run statements in the given order -/
def execOrder (σ : Store) (order : List KStmt) : Store := order.foldl execStmt σ

/-! ### the static check pytato's kernels must pass -/

mutual
/-- names of arrays an expression reads (subscripted or bare) -/
def readNames : SExpr → List String
  | .int _ | .bool _ | .rat _ _ | .nan | .idx _ => []
  | .var x => [x]
  | .sub a ix => a :: readNamesList ix
  | .add a c | .mul a c | .quot a c | .fdiv a c | .rem a c | .pow a c
  | .cmp _ a c | .land a c | .lor a c => readNames a ++ readNames c
  | .lnot a | .cast _ a => readNames a
  | .ite c t e => readNames c ++ readNames t ++ readNames e
  | .reduce _ _ lo hi body => readNames lo ++ readNames hi ++ readNames body
  | .call _ args => readNamesList args
def readNamesList : List SExpr → List String
  | [] => []
  | e :: es => readNames e ++ readNamesList es
end

/-- every name occurring in the statement's expressions -/
def KStmt.rawReads (s : KStmt) : List String :=
  readNames s.rhs ++ readNamesList s.lhsIdx ++
    s.lets.flatMap (fun l => readNames l.2) ++
    s.loops.flatMap (fun l => readNames l.2.1 ++ readNames l.2.2)

/-- names bound locally by the statement: loop variables and lets -/
def KStmt.locals (s : KStmt) : List String := s.loops.map (·.1) ++ s.lets.map (·.1)

/-- every name a statement may read from the store (loop variables and its own
    lets are bound locally and excluded) -/
def KStmt.reads (s : KStmt) : List String :=
  s.rawReads.filter fun x => !s.locals.contains x

/-- ids reachable through `deps` (fuel = number of statements suffices) -/
def depClosure (k : Kernel) : Nat → List String → List String
  | 0, acc => acc
  | fuel + 1, acc =>
    let next := acc ++ (k.filter (fun s => acc.contains s.id)).flatMap (·.deps)
    depClosure k fuel next.eraseDups

def writerOf (k : Kernel) (x : String) : Option KStmt := k.find? fun s => !s.noop && s.lhs == x

/-- the static check: single assignment; dependencies name existing statements;
    every array a statement reads is an input (no statement writes it) or is
    written by a statement among its transitive dependencies; no statement
    reads what it writes; local names (loop variables, lets) are not written by
    statements. -/
def checkKernel (k : Kernel) : Bool :=
  let ids := k.map (·.id)
  let written := (k.filter (!·.noop)).map (·.lhs)
  decide ids.Nodup && decide written.Nodup &&
  k.all (fun s => s.deps.all ids.contains) &&
  k.all (fun s =>
    s.noop ||
    (!(s.reads.contains s.lhs) &&
     s.locals.all (fun x => !written.contains x) &&
     s.reads.all (fun x =>
      match writerOf k x with
      | none => true
      | some w => (depClosure k k.length s.deps).contains w.id)))

/-- `order` is a permutation of the kernel's statements in which every
    statement comes after all its dependencies (boolean, executable) -/
def respectsDeps (order : List KStmt) : Bool :=
  let rec go : List KStmt → List String → Bool
    | [], _ => true
    | s :: rest, done => s.deps.all done.contains && go rest (s.id :: done)
  go order []

end Pt

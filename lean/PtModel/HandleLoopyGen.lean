/-
  ptdriver query of the `loopygen` family:
    (loopygen (<node>…) ((<output name> <node index>)…) (<input name>…) <real kernel>|#none)
  Nodes (post-order, numbered from 0):
    (in name (d…))
    (il (d…) <expr> ((binding child)…) default|stored|inlined|subst|(unknown s)
        #none|(named n)|(prefixed p) (<var in var_to_reduction_descr order>…)
        ((<var> <loopy op> <lo affine #t|#f> <hi affine #t|#f>)…))
    (refused why) (other why)
  -> `same <n statements>`                               model kernel = real kernel, statement by statement
   | `differ <k> <model statement> ||| <real statement>` first statement that differs (`-` = missing)
   | `kernel <wire>`                                     (no real kernel given) the model's kernel
   | `refuse <why>` | `unmodelled <why>`
  followed, for `same` / `differ` / `kernel`, by TAB `#check yes|no` (the model kernel passes `checkKernel`)
  TAB `#fragment yes|no <reasons>` (the graph is inside the fragment of `loopygen_sound_partial` /
  `loopygen_checks_partial`) TAB `#fragmentR yes|no <reasons>` (… of `loopygen_sound_red_partial`).
-/
import PtModel.Sexp
import PtModel.HandleKernel
import PtModel.LoopyGen
import PtModel.LoopyGenSem
namespace Pt
open LG

def KStmt.toSx (s : KStmt) : Sx :=
  if s.noop then .list [.atom "noop", .atom s.id, .list (s.deps.map .atom)]
  else
    .list [.atom "stmt", .atom s.id, .atom s.lhs, .list (s.lhsIdx.map SExpr.toSx),
      .list (s.loops.map fun l => .list [.atom l.1, l.2.1.toSx, l.2.2.toSx]),
      .list (s.lets.map fun l => .list [.atom l.1, l.2.toSx]),
      s.rhs.toSx, .list (s.deps.map .atom)]

def parseLNode : Sx → Option LNode
  | .list [.atom "in", .atom name, shp] => do some (.input name (← shp.asNats?))
  | .list [.atom "il", shp, e, .list binds, impl, tag, .list uo, .list rvs] => do
    let bs ← binds.mapM fun
      | .list [.atom b, c] => do some (b, ← c.asNat?)
      | _ => none
    let im ← match impl with
      | .atom "default" => some Strategy.default
      | .atom "stored" => some Strategy.stored
      | .atom "inlined" => some Strategy.inlined
      | .atom "subst" => some Strategy.subst
      | .list [.atom "unknown", .atom s] => some (Strategy.unknown s)
      | _ => none
    let tg ← match tag with
      | .atom "#none" => some NameTag.none
      | .list [.atom "named", .atom n] => some (NameTag.named n)
      | .list [.atom "prefixed", .atom p] => some (NameTag.prefixed p)
      | _ => none
    let rv ← rvs.mapM fun
      | .list [.atom v, .atom op, .atom la, .atom ha] => some { name := v, op := op, loAffine := la == "#t", hiAffine := ha == "#t" : RVar }
      | _ => none
    some (.indexLambda (← shp.asNats?) (← SExpr.ofSx e) bs im tg (← uo.mapM Sx.asAtom?) rv)
  | .list [.atom "refused", .atom w] => some (.refused w)
  | .list [.atom "other", .atom w] => some (.other w)
  | _ => none

def handleLoopyGen : List Sx → Option String
  | [.list nodes, .list outs, .list inputs, real] => do
    let g ← nodes.mapM parseLNode
    let os ← outs.mapM fun
      | .list [.atom n, c] => do some (n, ← c.asNat?)
      | _ => none
    let ins ← inputs.mapM Sx.asAtom?
    match LG.generate g.toArray os ins with
    | .refuse w => some ("refuse " ++ w)
    | .unmodelled w => some ("unmodelled " ++ w)
    | .ok k =>
      -- is the graph inside the fragment the soundness theorems cover (`PtProofs.C01GenChecks`)?
      let frag :=
        if LG.fragmentCheck g.toArray && os.all (fun o => decide (o.2 < g.length)) then "yes"
        else "no " ++ ",".intercalate (LG.outsideFragment g.toArray)
      -- … and inside the larger fragment of the soundness theorem with reductions (`PtProofs.C01GenRed`)?
      let fragR :=
        if LG.fragmentCheckR g.toArray && os.all (fun o => decide (o.2 < g.length)) then "yes"
        else "no " ++ ",".intercalate (LG.outsideFragmentR g.toArray)
      let chk := "\t#check " ++ (if checkKernel k then "yes" else "no") ++ "\t#fragment " ++ frag ++
        "\t#fragmentR " ++ fragR
      match real with
      | .atom "#none" => some ("kernel " ++ (Sx.list (k.map KStmt.toSx)).toStr ++ chk)
      | r => do
        let rk ← parseKernel r
        let ms := k.map fun s => s.toSx.toStr
        let rs := rk.map fun s => s.toSx.toStr
        let rec firstDiff : List String → List String → Nat → Option (Nat × String × String)
          | [], [], _ => none
          | a :: as, b :: bs, n => if a == b then firstDiff as bs (n + 1) else some (n, a, b)
          | a :: _, [], n => some (n, a, "-")
          | [], b :: _, n => some (n, "-", b)
        match firstDiff ms rs 0 with
        | none => some (s!"same {ms.length}" ++ chk)
        | some (n, a, b) => some (s!"differ {n} {a} ||| {b}" ++ chk)
  | _ => none

end Pt

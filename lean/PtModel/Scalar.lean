/-
  PtModel.Scalar — deep embedding of the scalar-expression IR that can occur in
  `IndexLambda.expr` (pymbolic + `pytato.scalar_expr.Reduce`/`TypeCast`), with a
  denotational evaluator over exact values (integers, booleans, rationals).
  This is "the documented index-lambda semantics": the value of an index lambda
  at index `i` is `eval` of its expression with `_k ↦ i[k]` and the bindings as
  arrays.

  Floating point, NaN/inf and transcendental functions have no meaning here
  (`Val.undef`); that fragment is compared against NumPy only.
-/
import PtModel.Basic
namespace Pt

inductive CmpOp | eq | ne | lt | le | gt | ge
deriving DecidableEq, Repr

inductive RedOp | sum | prod | max | min | all | any
deriving DecidableEq, Repr

inductive SExpr where
  | int (n : Int)
  | bool (b : Bool)
  | rat (p : Int) (q : Nat)
  | nan
  | idx (k : Nat)
  | var (x : String)
  | sub (a : String) (ix : List SExpr)
  | add (a b : SExpr)
  | mul (a b : SExpr)
  | quot (a b : SExpr)
  | fdiv (a b : SExpr)
  | rem (a b : SExpr)
  | pow (a b : SExpr)
  | cmp (op : CmpOp) (a b : SExpr)
  | land (a b : SExpr)
  | lor (a b : SExpr)
  | lnot (a : SExpr)
  | ite (c t e : SExpr)
  | reduce (op : RedOp) (v : String) (lo hi : SExpr) (body : SExpr)
  | call (f : String) (args : List SExpr)
  | cast (dt : String) (a : SExpr)
deriving Repr, Inhabited

inductive Val where
  | i (n : Int)
  | b (v : Bool)
  | q (r : Rat)
  | undef
deriving DecidableEq, Repr, Inhabited

namespace Val

def toInt? : Val → Option Int
  | i n => some n
  | b v => some (if v then 1 else 0)
  | _ => none

def toRat? : Val → Option Rat
  | i n => some (n : Rat)
  | b v => some (if v then 1 else 0)
  | q r => some r
  | undef => none

def truthy? : Val → Option Bool
  | i n => some (n != 0)
  | b v => some v
  | q r => some (r != 0)
  | undef => none

/-- canonical form: an integral rational is an integer -/
def norm : Val → Val
  | q r => if r.den = 1 then i r.num else q r
  | v => v

def arith (fi : Int → Int → Int) (fq : Rat → Rat → Rat) (x y : Val) : Val :=
  match x.toInt?, y.toInt? with
  | some a, some c => i (fi a c)
  | _, _ =>
    match x.toRat?, y.toRat? with
    | some a, some c => q (fq a c)
    | _, _ => undef

def add := arith (· + ·) (· + ·)
def mul := arith (· * ·) (· * ·)

def quot (x y : Val) : Val :=
  match x.toRat?, y.toRat? with
  | some a, some c => if c = 0 then undef else q (a / c)
  | _, _ => undef

def fdiv (x y : Val) : Val :=
  match x.toInt?, y.toInt? with
  | some a, some c => if c = 0 then undef else i (pyDiv a c)
  | _, _ =>
    match x.toRat?, y.toRat? with
    | some a, some c => if c = 0 then undef else q ((a / c).floor : Int)
    | _, _ => undef

def rem (x y : Val) : Val :=
  match x.toInt?, y.toInt? with
  | some a, some c => if c = 0 then undef else i (pyMod a c)
  | _, _ =>
    match x.toRat?, y.toRat? with
    | some a, some c => if c = 0 then undef else q (a - c * ((a / c).floor : Int))
    | _, _ => undef

def pow (x y : Val) : Val :=
  match y.toInt? with
  | some e =>
    if e ≥ 0 then
      match x.toInt? with
      | some a => i (a ^ e.toNat)
      | none => match x.toRat? with
        | some a => q (a ^ e.toNat)
        | none => undef
    else
      match x.toRat? with
      | some a => if a = 0 then undef else q ((1 : Rat) / a ^ (-e).toNat)
      | none => undef
  | none => undef

def cmp (op : CmpOp) (x y : Val) : Val :=
  match x.toRat?, y.toRat? with
  | some a, some c =>
    b (match op with
      | .eq => a == c | .ne => a != c
      | .lt => decide (a < c) | .le => decide (a ≤ c)
      | .gt => decide (c < a) | .ge => decide (c ≤ a))
  | _, _ => undef

def land (x y : Val) : Val :=
  match x.truthy?, y.truthy? with
  | some a, some c => b (a && c)
  | _, _ => undef

def lor (x y : Val) : Val :=
  match x.truthy?, y.truthy? with
  | some a, some c => b (a || c)
  | _, _ => undef

def lnot (x : Val) : Val :=
  match x.truthy? with
  | some a => b (!a)
  | none => undef

def vmax (x y : Val) : Val :=
  match x.toInt?, y.toInt? with
  | some a, some c => i (max a c)
  | _, _ => match x.toRat?, y.toRat? with
    | some a, some c => q (if a < c then c else a)
    | _, _ => undef

def vmin (x y : Val) : Val :=
  match x.toInt?, y.toInt? with
  | some a, some c => i (min a c)
  | _, _ => match x.toRat?, y.toRat? with
    | some a, some c => q (if c < a then c else a)
    | _, _ => undef

/-- casts in the exact domain: to bool = truthiness, to an integer type =
    truncation toward zero, to a float/complex type = the same number -/
def cast (dt : String) (x : Val) : Val :=
  if dt = "bool" then (match x.truthy? with | some a => b a | none => undef)
  else if dt.startsWith "int" || dt.startsWith "uint" then
    match x with
    | q r => i (if r < 0 then -((-r).floor) else r.floor)
    | b v => i (if v then 1 else 0)
    | v => v
  else
    match x with
    | b v => i (if v then 1 else 0)
    | v => v

end Val

/-- fold of a reduction over the list of body values, in iteration order -/
def RedOp.fold (op : RedOp) (vs : List Val) : Val :=
  match op with
  | .sum => vs.foldl Val.add (.i 0)
  | .prod => vs.foldl Val.mul (.i 1)
  | .all => vs.foldl Val.land (.b true)
  | .any => vs.foldl Val.lor (.b false)
  | .max => match vs with
    | [] => .undef
    | v :: rest => rest.foldl Val.vmax v
  | .min => match vs with
    | [] => .undef
    | v :: rest => rest.foldl Val.vmin v

/-- evaluation environment: the point `_0, _1, …` at which the index lambda is
    evaluated, the reduction variables in scope, the bindings -/
structure Env where
  pt : Idx
  ix : List (String × Int)
  arr : List (String × Arr Val)

def Env.lookupIx (env : Env) (x : String) : Option Int :=
  (env.ix.find? (·.1 == x)).map (·.2)

def Env.lookupArr (env : Env) (x : String) : Option (Arr Val) :=
  (env.arr.find? (·.1 == x)).map (·.2)

def Env.bind (env : Env) (x : String) (v : Int) : Env :=
  { env with ix := (x, v) :: env.ix }

/-- integer indices → natural multi-index, `none` if any is negative/non-integer -/
def toNatIdx : List Val → Option Idx
  | [] => some []
  | v :: vs =>
    match v.toInt?, toNatIdx vs with
    | some n, some r => if n < 0 then none else some (n.toNat :: r)
    | _, _ => none

def callExact (f : String) (args : List Val) : Val :=
  match f, args with
  | "pytato.zero", _ => .i 0
  | "pytato.c99.abs", [v] | "pytato.c99.fabs", [v] =>
    (match v.toInt? with
     | some a => .i (if a < 0 then -a else a)
     | none => match v.toRat? with
       | some a => .q (if a < 0 then -a else a)
       | none => .undef)
  | "pytato.c99.isnan", [v] => (match v with | .undef => .undef | _ => .b false)
  | "pytato.c99.real", [v] => v
  | "pytato.c99.conj", [v] => v
  | "pytato.c99.imag", [v] => (match v with | .undef => .undef | _ => .i 0)
  | "pytato.c99.floor", [v] => (match v with | .q r => .q (r.floor : Int) | v => v)
  | "pytato.c99.ceil", [v] => (match v with | .q r => .q (r.ceil : Int) | v => v)
  | "pytato.c99.fmax", [x, y] | "pytato.c99.max", [x, y] => Val.vmax x y
  | "pytato.c99.fmin", [x, y] | "pytato.c99.min", [x, y] => Val.vmin x y
  | _, _ => .undef

mutual
/-- the value of a scalar expression in an environment -/
def eval (env : Env) : SExpr → Val
  | .int n => .i n
  | .bool v => .b v
  | .rat p d => if d = 0 then .undef else .q ((p : Rat) / (d : Rat))
  | .nan => .undef
  | .idx k => (match env.pt[k]? with
    | some v => .i v
    | none => .undef)
  | .var x =>
    match env.lookupIx x with
    | some n => .i n
    | none => match env.lookupArr x with
      | some a => if a.shape = [] then a.get [] else .undef
      | none => .undef
  | .sub a ix =>
    match env.lookupArr a, toNatIdx (evalList env ix) with
    | some arr, some i => if inB arr.shape i then arr.get i else .undef
    | _, _ => .undef
  | .add a c => Val.add (eval env a) (eval env c)
  | .mul a c => Val.mul (eval env a) (eval env c)
  | .quot a c => Val.quot (eval env a) (eval env c)
  | .fdiv a c => Val.fdiv (eval env a) (eval env c)
  | .rem a c => Val.rem (eval env a) (eval env c)
  | .pow a c => Val.pow (eval env a) (eval env c)
  | .cmp op a c => Val.cmp op (eval env a) (eval env c)
  | .land a c => Val.land (eval env a) (eval env c)
  | .lor a c => Val.lor (eval env a) (eval env c)
  | .lnot a => Val.lnot (eval env a)
  | .ite c t e =>
    match (eval env c).truthy? with
    | some true => eval env t
    | some false => eval env e
    | none => .undef
  | .reduce op v lo hi body =>
    match (eval env lo).toInt?, (eval env hi).toInt? with
    | some l, some h =>
      op.fold ((List.range (h - l).toNat).map fun (k : Nat) => eval (env.bind v (l + (k : Int))) body)
    | _, _ => .undef
  | .call f args => callExact f (evalList env args)
  | .cast dt a => Val.cast dt (eval env a)
def evalList (env : Env) : List SExpr → List Val
  | [] => []
  | e :: es => eval env e :: evalList env es
end

/-- environment binding the index variables `_0, _1, …` to a multi-index -/
def idxEnv (i : Idx) (binds : List (String × Arr Val)) : Env :=
  { pt := i, ix := [], arr := binds }

/-- the array an index lambda denotes -/
def evalIL (e : SExpr) (shape : Shape) (binds : List (String × Arr Val)) : Arr Val :=
  ⟨shape, fun i => eval (idxEnv i binds) e⟩

/-! ### accesses: every subscript actually evaluated (for memory safety, C11) -/

mutual
/-- does the expression contain a subscript (= is a subscript index built from it
    data dependent)? -/
def hasSub : SExpr → Bool
  | .sub _ _ => true
  | .var _ | .idx _ | .int _ | .bool _ | .rat _ _ | .nan => false
  | .add a c | .mul a c | .quot a c | .fdiv a c | .rem a c | .pow a c
  | .cmp _ a c | .land a c | .lor a c => hasSub a || hasSub c
  | .lnot a | .cast _ a => hasSub a
  | .ite c t e => hasSub c || hasSub t || hasSub e
  | .reduce _ _ lo hi body => hasSub lo || hasSub hi || hasSub body
  | .call _ args => hasSubList args
def hasSubList : List SExpr → Bool
  | [] => false
  | e :: es => hasSub e || hasSubList es
end

/-- one evaluated access: array name, evaluated index, whether the index
    expressions were free of subscripts (affine/quasi-affine in loop indices),
    whether it was within the bounds of the binding -/
structure Access where
  name : String
  idx : List Val
  affine : Bool
  ok : Bool
deriving Repr

mutual
def accesses (env : Env) : SExpr → List Access
  | .int _ | .bool _ | .rat _ _ | .nan | .var _ | .idx _ => []
  | .sub a ix =>
    let vs := evalList env ix
    let ok := match env.lookupArr a, toNatIdx vs with
      | some arr, some i => inB arr.shape i
      | _, _ => false
    accessesList env ix ++ [⟨a, vs, !hasSubList ix, ok⟩]
  | .add a c | .mul a c | .quot a c | .fdiv a c | .rem a c | .pow a c
  | .cmp _ a c | .land a c | .lor a c => accesses env a ++ accesses env c
  | .lnot a | .cast _ a => accesses env a
  | .ite c t e =>
    accesses env c ++
    (match (eval env c).truthy? with
     | some true => accesses env t
     | some false => accesses env e
     | none => [])
  | .reduce _ v lo hi body =>
    accesses env lo ++ accesses env hi ++
    (match (eval env lo).toInt?, (eval env hi).toInt? with
     | some l, some h =>
       (List.range (h - l).toNat).flatMap fun (k : Nat) => accesses (env.bind v (l + (k : Int))) body
     | _, _ => [])
  | .call _ args => accessesList env args
def accessesList (env : Env) : List SExpr → List Access
  | [] => []
  | e :: es => accesses env e ++ accessesList env es
end

end Pt

/-
  PtModel.PyDenote — a denotation of the emitted Python fragment over the model's
  exact arrays (`Arr Val`), with NumPy's functions given by the `Spec` functions
  (`np.roll` = `Spec.roll`, `np.transpose`, `.T`, `np.reshape(order=)`, `np.stack`,
  `np.concatenate`, `np.broadcast_to`, basic subscripts through CPython's slice
  adjustment, elementwise operators / `np.where` / comparison / logical / C99
  functions with NumPy broadcasting, `np.sum|prod|max|min|all|any(axis=)`,
  `np.ones|zeros|full`), and the meaning of a graph node in the same terms
  (`denote`): for an index lambda, the NumPy meaning of the high-level operation
  the raiser classifies it as (`npHlo`; C19's `raise_sound` relates that to the
  index lambda's pointwise value).
-/
import PtModel.PyGen
import PtModel.Spec
namespace Pt
namespace Py

/-! ## values -/

inductive PyVal where
  | arr (a : Arr Val)
  | scalar (v : Val)
  | str (s : String)
  /-- tuple or list -/
  | seq (vs : List PyVal)
  | dict (kvs : List (String × PyVal))
  /-- a module or builtin (`_pt_np`, `np`, `float`), or an attribute of one (`_pt_np.roll`,
      `np.float32`) -/
  | ref (mod : String) (attr : Option String)

/-- an operand of an elementwise operation -/
inductive Opnd where
  | arr (a : Arr Val)
  | scl (v : Val)

def Opnd.shape? : Opnd → Option Shape
  | .arr a => some a.shape
  | .scl _ => none

/-- the operand broadcast to `s`, at index `i` -/
def Opnd.at (s : Shape) (i : Idx) : Opnd → Val
  | .arr a => (Spec.broadcastTo s a).get i
  | .scl v => v

def shapesOfOpnds : List Opnd → List Shape
  | [] => []
  | o :: r => (match o.shape? with | some s => s :: shapesOfOpnds r | none => shapesOfOpnds r)

/-- NumPy's elementwise application with broadcasting -/
def elementwise (f : List Val → Val) (os : List Opnd) : Option (Arr Val) :=
  (Raise.bcastShapes (shapesOfOpnds os)).map fun s => ⟨s, fun i => f (os.map (Opnd.at s i))⟩

def PyVal.opnd? : PyVal → Option Opnd
  | .arr a => some (.arr a)
  | .scalar v => some (.scl v)
  | _ => none

def opnds? : List PyVal → Option (List Opnd)
  | [] => some []
  | v :: r => (match v.opnd?, opnds? r with | some o, some os => some (o :: os) | _, _ => none)

def PyVal.int? : PyVal → Option Int
  | .scalar (.i n) => some n
  | _ => none

def ints? : List PyVal → Option (List Int)
  | [] => some []
  | v :: r => (match v.int?, ints? r with | some n, some ns => some (n :: ns) | _, _ => none)

def nats? (vs : List PyVal) : Option (List Nat) :=
  (ints? vs).bind fun ns => if ns.all (· ≥ 0) then some (ns.map Int.toNat) else none

def arrs? : List PyVal → Option (List (Arr Val))
  | [] => some []
  | .arr a :: r => (arrs? r).map (a :: ·)
  | _ :: _ => none

def kw? (kws : List (String × PyVal)) (k : String) : Option PyVal :=
  (kws.find? (·.1 == k)).map (·.2)

/-! ## the NumPy functions -/

def whereVal : List Val → Val
  | [c, t, e] => (match c.truthy? with | some true => t | some false => e | none => .undef)
  | _ => .undef

def binVal (op : Raise.BinOp) : List Val → Val
  | [a, b] => op.apply a b
  | _ => .undef

/-- the scalar kind a dtype name stands for in the exact value domain -/
inductive VKind where
  | int | rat | bool
deriving DecidableEq, Repr

def kindOfTyname (t : String) : VKind :=
  if t == "bool" || t == "bool_" then .bool
  else if t.startsWith "float" || t.startsWith "complex" then .rat
  else .int

/-- dtype of `np.ones(shape)` without `dtype=`: float64 -/
def kindOfKw (kws : List (String × PyVal)) : VKind :=
  match kw? kws "dtype" with
  | some (.ref _ (some t)) => kindOfTyname t
  | _ => .rat

def oneVal : VKind → Val
  | .int => .i 1 | .rat => .q 1 | .bool => .b true
def zeroVal : VKind → Val
  | .int => .i 0 | .rat => .q 0 | .bool => .b false

/-- shape of a reduction result: the reduced dims removed -/
def removeDims (s : Shape) (dims : List Nat) : Shape :=
  ((List.range s.length).filter fun d => !dims.contains d).map fun d => s.getD d 0

/-- `np.<redn>(a, axis=dims)` (dims in the order given; NumPy's result does not depend on it) -/
def npReduce (op : RedOp) (a : Arr Val) (dims : List Nat) : Arr Val :=
  ⟨removeDims a.shape dims, fun i => Raise.reduceOver op a i (dims.map fun d => (d, "")) []⟩

def redOfName : String → Option RedOp
  | "sum" => some .sum | "prod" => some .prod | "max" => some .max | "min" => some .min
  | "all" => some .all | "any" => some .any | _ => none

def cmpOfName : String → Option CmpOp
  | "less" => some .lt | "greater" => some .gt | "less_equal" => some .le
  | "greater_equal" => some .ge | "equal" => some .eq | "not_equal" => some .ne | _ => none

/-- NumPy name ↦ the C99 name pytato's scalar semantics (`callExact`) knows -/
def c99OfNumpyName (f : String) : Option String :=
  match MISMATCHED_C99.find? (·.2 == f) with
  | some p => some p.1
  | none => if Raise.c99Funcs.contains f then some f else none

def reshapeOrder (o : String) (s : Shape) (a : Arr Val) : Option (Arr Val) :=
  if o == "C" then some (Spec.reshapeC s a)
  else if o == "F" then some (Spec.reshapeF s a)
  else none

/-- `_pt_np.<f>(args, **kws)` -/
def npCall (f : String) (args : List PyVal) (kws : List (String × PyVal)) : Option PyVal :=
  if f == "roll" then
    match args, (kw? kws "shift").bind PyVal.int?, (kw? kws "axis").bind PyVal.int? with
    | [.arr a], some s, some k => if k ≥ 0 then some (.arr (Spec.roll s k.toNat a)) else none
    | _, _, _ => none
  else if f == "transpose" then
    match args, kw? kws "axes" with
    | [.arr a], some (.seq p) => (nats? p).map fun p => .arr (Spec.transpose p a)
    | _, _ => none
  else if f == "reshape" then
    match args, kw? kws "order" with
    | [.arr a, .seq s], some (.str o) => (nats? s).bind fun s => (reshapeOrder o s a).map .arr
    | _, _ => none
  else if f == "stack" then
    match args, (kw? kws "axis").bind PyVal.int? with
    | [.seq xs], some k =>
      if k ≥ 0 then (arrs? xs).map fun as =>
        .arr (Spec.stack ((as.head?.map (·.shape)).getD []) k.toNat as .undef) else none
    | _, _ => none
  else if f == "concatenate" then
    match args, (kw? kws "axis").bind PyVal.int? with
    | [.seq xs], some k =>
      if k ≥ 0 then (arrs? xs).map fun as => .arr (Spec.concatenate k.toNat as .undef) else none
    | _, _ => none
  else if f == "broadcast_to" then
    match args with
    | [.arr a, .seq s] => (nats? s).map fun s => .arr (Spec.broadcastTo s a)
    | _ => none
  else if f == "ones" then
    match args with
    | [.seq s] => (nats? s).map fun s => .arr ⟨s, fun _ => oneVal (kindOfKw kws)⟩
    | _ => none
  else if f == "zeros" then
    match args with
    | [.seq s] => (nats? s).map fun s => .arr ⟨s, fun _ => zeroVal (kindOfKw kws)⟩
    | _ => none
  else if f == "full" then
    match args with
    | [.seq s, .scalar v] => (nats? s).map fun s => .arr ⟨s, fun _ => v⟩
    | _ => none
  else if f == "where" then
    (opnds? args).bind fun os => (elementwise whereVal os).map .arr
  else if f == "logical_or" then
    (opnds? args).bind fun os => (elementwise (binVal .logicalOr) os).map .arr
  else if f == "logical_and" then
    (opnds? args).bind fun os => (elementwise (binVal .logicalAnd) os).map .arr
  else
    match cmpOfName f with
    | some c => (opnds? args).bind fun os => (elementwise (binVal (.cmp c)) os).map .arr
    | none =>
      match redOfName f with
      | some op =>
        (match args, kw? kws "axis" with
         | [.arr a], none => some (.arr (npReduce op a (List.range a.shape.length)))
         | [.arr a], some (.scalar (.i k)) => if k ≥ 0 then some (.arr (npReduce op a [k.toNat])) else none
         | [.arr a], some (.seq ks) => (nats? ks).map fun ks => .arr (npReduce op a ks)
         | _, _ => none)
      | none =>
        match c99OfNumpyName f with
        | some g =>
          (opnds? args).bind fun os =>
            (elementwise (fun vs => callExact (Raise.c99Prefix ++ g) vs) os).map .arr
        | none => none

/-- the Python binary operators, with NumPy broadcasting -/
def BinOp.toRaise : BinOp → Raise.BinOp
  | .add => .add | .sub => .sub | .mult => .mult | .div => .truediv | .floordiv => .floordiv
  | .mod => .mod | .pow => .power | .bitor => .bitwiseOr | .bitxor => .bitwiseXor | .bitand => .bitwiseAnd

def pyBin (op : BinOp) (l r : PyVal) : Option PyVal :=
  (opnds? [l, r]).bind fun os => (elementwise (binVal op.toRaise) os).map .arr

/-! ## subscripts -/

/-- an evaluated index entry -/
inductive IdxVal where
  | int (k : Int)
  | slice (lo up : Option Int) (step : Int)

def IdxVal.toB : IdxVal → Spec.BIdx
  | .int k => .int k
  | .slice lo up st => .slice lo up st

/-- `a[ix]` for ints and slices: missing trailing entries are full slices -/
def pyBasic (ix : List IdxVal) (a : Arr Val) : Arr Val :=
  Spec.basicIndex (ix.map IdxVal.toB ++ List.replicate (a.shape.length - ix.length) (.slice none none 1)) a

/-! ## evaluation -/

abbrev PEnv := List (String × PyVal)

def PEnv.get? (env : PEnv) (n : String) : Option PyVal := (env.find? (·.1 == n)).map (·.2)

def optInt? : Option PyVal → Option (Option Int)
  | none => some none
  | some v => v.int?.map some

mutual
def pyEval (env : PEnv) : PyExpr → Option PyVal
  | .name s =>
    (match env.get? s with
     | some v => some v
     | none =>
       if s == "_pt_np" || s == "np" || s == "float" || s == "complex" then some (.ref s none) else none)
  | .num _ v => some (.scalar v)
  | .str s => some (.str s)
  | .neg e => (match pyEval env e with | some (.scalar v) => some (.scalar (negate v)) | _ => none)
  | .attr e a =>
    (match pyEval env e with
     | some (.ref m none) => some (.ref m (some a))
     | some (.arr x) =>
       if a == "T" then some (.arr (Spec.transpose (List.range x.shape.length).reverse x)) else none
     | _ => none)
  | .call f args kw =>
    (match pyEval env f, pyEvalList env args, pyEvalKws env kw with
     | some (.ref m (some f)), some as, some ks =>
       if m == "_pt_np" then npCall f as ks
       else
         -- `np.float32('inf')`, `np.float64('nan')`: a non-finite scalar (outside the exact domain)
         (match as with
          | [.str _] => some (.scalar .undef)
          | _ => none)
     | some (.ref _ none), some as, _ =>
       -- `float('nan')`, `complex('nan')`
       (match as with
        | [.str _] => some (.scalar .undef)
        | _ => none)
     | _, _, _ => none)
  | .bin op l r =>
    (match pyEval env l, pyEval env r with
     | some a, some b => pyBin op a b
     | _, _ => none)
  | .tuple es => (pyEvalList env es).map .seq
  | .list es => (pyEvalList env es).map .seq
  | .dict kvs => (pyEvalKws env kvs).map .dict
  | .subscript v ix =>
    (match pyEval env v, pyEvalIdxs env ix with
     | some (.arr a), some is => some (.arr (pyBasic is a))
     | _, _ => none)
def pyEvalList (env : PEnv) : List PyExpr → Option (List PyVal)
  | [] => some []
  | e :: r => (match pyEval env e, pyEvalList env r with | some v, some vs => some (v :: vs) | _, _ => none)
def pyEvalKws (env : PEnv) : List (String × PyExpr) → Option (List (String × PyVal))
  | [] => some []
  | (k, e) :: r =>
    (match pyEval env e, pyEvalKws env r with | some v, some vs => some ((k, v) :: vs) | _, _ => none)
def pyEvalOpt (env : PEnv) : Option PyExpr → Option (Option Int)
  | none => some none
  | some e => (match pyEval env e with | some v => v.int?.map some | none => none)
def pyEvalIdxs (env : PEnv) : List PyIdx → Option (List IdxVal)
  | [] => some []
  | i :: r =>
    (match pyEvalIdx env i, pyEvalIdxs env r with | some v, some vs => some (v :: vs) | _, _ => none)
def pyEvalIdx (env : PEnv) : PyIdx → Option IdxVal
  | .expr e => (match pyEval env e with | some v => v.int?.map .int | none => none)
  | .slice lo up st =>
    (match pyEvalOpt env lo, pyEvalOpt env up, pyEvalOpt env st with
     | some l, some u, some s => some (.slice l u (s.getD 1))
     | _, _, _ => none)
end

/-- run the statements of a function body: the value returned -/
def runBody : PEnv → List PyStmt → Option PyVal
  | _, [] => none
  | env, .ret n :: _ => env.get? n
  | env, .assign l r :: rest =>
    (match pyEval env r with
     | some v => runBody ((l, v) :: env) rest
     | none => none)

/-! ## what a graph node means -/

/-- an operand of a high-level operation over an environment of arrays -/
def opndOf (env : List (String × Arr Val)) : Raise.Operand → Option Opnd
  | .arr n => (Raise.lookupEnv env n).map .arr
  | .scalar c => some (.scl (Raise.litVal c))

def opndsOf (env : List (String × Arr Val)) : List Raise.Operand → Option (List Opnd)
  | [] => some []
  | o :: r => (match opndOf env o, opndsOf env r with | some x, some xs => some (x :: xs) | _, _ => none)

/-- the NumPy meaning of a high-level operation on the ACTUAL operand arrays (`shape` = the declared
    shape, used where NumPy is told a shape: `full`, `zeros`, `broadcast_to`) -/
def npHlo (h : Raise.HLO) (shape : Shape) (kind : VKind) (env : List (String × Arr Val)) :
    Option (Arr Val) :=
  match h with
  | .full c =>
    some ⟨shape, fun _ =>
      if isOneLit c then oneVal kind else if isZeroLit c then zeroVal kind else Raise.litVal c⟩
  | .binary op x1 x2 => (opndsOf env [x1, x2]).bind fun os => elementwise (binVal op) os
  | .call f args =>
    (opndsOf env args).bind fun os => elementwise (fun vs => callExact (Raise.c99Prefix ++ f) vs) os
  | .zerosLike _ => some ⟨shape, fun _ => zeroVal kind⟩
  | .where_ c t e => (opndsOf env [c, t, e]).bind fun os => elementwise whereVal os
  | .broadcast x => (Raise.lookupEnv env x).map (Spec.broadcastTo shape)
  | .logicalNot _ => none
  | .reduce op x axes => (Raise.lookupEnv env x).map fun a => npReduce op a (axes.map (·.1))

/-! ### basic indexing with slices already adjusted to their axes

  pytato's `BasicIndex` stores NORMALISED slices (`NormalizedSlice`: what `_normalize_slice`
  makes of the user's slice for the axis length); NumPy is given a Python slice, which CPython
  adjusts to the axis (`cpyAdjust`).  `gIndex` is indexing with the adjusted slices in hand:
  `Spec.basicIndex ix a = gIndex (adjust a.shape ix) a`. -/

inductive GIdx where
  | int (k : Int)
  | slice (s : NSlice)

def gShape : Shape → List GIdx → Shape
  | _ :: ns, .int _ :: ix => gShape ns ix
  | _ :: ns, .slice s :: ix => (cpyLen s).toNat :: gShape ns ix
  | _, _ => []

def gSrc : Shape → List GIdx → Idx → Idx
  | n :: ns, .int k :: ix, i => (if k < 0 then k + n else k).toNat :: gSrc ns ix i
  | _ :: ns, .slice s :: ix, j :: i => (s.start + s.step * j).toNat :: gSrc ns ix i
  | _, _, _ => []

def gIndex {α : Type} (ix : List GIdx) (a : Arr α) : Arr α :=
  ⟨gShape a.shape ix, fun i => a.get (gSrc a.shape ix i)⟩

/-- CPython's adjustment of every slice to its axis -/
def adjust : Shape → List Spec.BIdx → List GIdx
  | _ :: ns, .int k :: ix => .int k :: adjust ns ix
  | n :: ns, .slice st sp step :: ix => .slice (cpyAdjust st sp step n) :: adjust ns ix
  | _, _ => []

/-- the entries of a `BasicIndex` node -/
def PIdx.toG : PIdx → Option GIdx
  | .int k => some (.int k)
  | .slice s => some (.slice s)
  | .arr _ => none

def toGs : List PIdx → Option (List GIdx)
  | [] => some []
  | x :: r => (match x.toG, toGs r with | some g, some gs => some (g :: gs) | _, _ => none)

/-- the Python index entries the target writes for the first entries of a basic index (the
    evaluated form of `idxSlots`) -/
def emittedB : List PIdx → Shape → List Spec.BIdx
  | [], _ => []
  | .int k :: r, ds => .int k :: emittedB r ds.tail
  | .slice s :: r, ds =>
    (let t := resynthSlice s (ds.headD 0); Spec.BIdx.slice t.1 t.2.1 t.2.2) :: emittedB r ds.tail
  | .arr _ :: r, ds => emittedB r ds.tail

def isNormB (s : NSlice) (n : Int) : Bool :=
  (decide (s.step > 0) && decide (0 ≤ s.start) && decide (s.start ≤ n) && decide (0 ≤ s.stop) && decide (s.stop ≤ n))
  || (decide (s.step < 0) && decide (-1 ≤ s.start) && decide (s.start ≤ n - 1) && decide (-1 ≤ s.stop)
      && decide (s.stop ≤ n - 1))

/-- every entry is an integer or a slice in the range of `_normalize_slice` for its axis -/
def basicNorm : List PIdx → Shape → Bool
  | [], [] => true
  | .int _ :: r, _ :: ds => basicNorm r ds
  | .slice s :: r, d :: ds => isNormB s d && basicNorm r ds
  | _, _ => false

def normIdxB (dim : Nat) : PIdx → Option Spec.BIdx
  | .int k => some (.int k)
  | .slice s =>
    let r := resynthSlice s dim
    some (.slice r.1 r.2.1 r.2.2)
  | .arr _ => none

def allSomeArr : List (Option (Arr Val)) → Option (List (Arr Val))
  | [] => some []
  | none :: _ => none
  | some a :: r => (allSomeArr r).map (a :: ·)

/-- the bindings of an index lambda as an environment of arrays (a binding whose child has no
    denotation is absent: an operand that refers to it then has none either) -/
def envOf (den : Nat → Option (Arr Val)) (binds : List (String × Nat)) : List (String × Arr Val) :=
  binds.filterMap fun b => (den b.2).map fun a => (b.1, a)

/-- one step of the denotation: node `i` from the denotations `den` of its children -/
def denoteStep (g : PGraph) (inp : Nat → Option (Arr Val)) (den : Nat → Option (Arr Val)) (i : Nat) :
    Option (Arr Val) :=
  let nd := g.get i
  match nd.node with
  | .placeholder _ => inp i
  | .dataWrapper _ => inp i
  | .indexLambda dt e binds _ =>
    (match staticShape nd.shape, bindShapes g binds with
     | some shape, .ok bs =>
       (match Raise.raise e shape bs with
        | some h => npHlo h shape (kindOfTyname dt.tyname) (envOf den binds)
        | none => none)
     | _, _ => none)
  | .roll c shift axis => if axis ≥ 0 then (den c).map (Spec.roll shift axis.toNat) else none
  | .perm c p => (den c).map (Spec.transpose p)
  | .reshape c order =>
    (match staticShape nd.shape, den c with
     | some s, some a => reshapeOrder order s a
     | _, _ => none)
  | .stack cs axis =>
    if axis ≥ 0 then
      (allSomeArr (cs.map den)).map fun as =>
        Spec.stack ((as.head?.map (·.shape)).getD []) axis.toNat as .undef
    else none
  | .concat cs axis =>
    if axis ≥ 0 then (allSomeArr (cs.map den)).map fun as => Spec.concatenate axis.toNat as .undef
    else none
  | .index c ix =>
    -- a basic index (integers and normalised slices): indexing with those slices; an index of
    -- full slices only (`a[:, :]`) is the array (`gIndex_trivial` in PtProofs.PyGenIndexLemmas:
    -- same shape, same element at every index of the right length)
    (match toGs ix, den c with
     | some gs, some a => some (if emittedIdxCount ix a.shape = 0 then a else gIndex gs a)
     | _, _ => none)
  | .alias c => den c
  | _ => none

/-- denotation of node `i` given the input arrays (`inp`: node number ↦ array, for placeholders and
    data wrappers); fuel-indexed like every traversal of the heap -/
def denote (g : PGraph) (inp : Nat → Option (Arr Val)) : Nat → Nat → Option (Arr Val)
  | 0, _ => none
  | fuel + 1, i => denoteStep g inp (denote g inp fuel) i

/-- the array node `i` denotes -/
def den (g : PGraph) (inp : Nat → Option (Arr Val)) (i : Nat) : Option (Arr Val) := denote g inp (i + 1) i

def allSomeKV : List (String × Option (Arr Val)) → Option (List (String × PyVal))
  | [] => some []
  | (_, none) :: _ => none
  | (k, some a) :: r => (allSomeKV r).map ((k, .arr a) :: ·)

/-- the value of an output: a dictionary root denotes the dictionary of its entries' arrays, keys in
    sorted order -/
def denV (g : PGraph) (inp : Nat → Option (Arr Val)) (i : Nat) : Option PyVal :=
  match (g.get i).node with
  | .dict items =>
    (allSomeKV ((sortBy (fun a b => decide (a.1 < b.1)) items).map fun kv => (kv.1, den g inp kv.2))).map .dict
  | _ => (den g inp i).map .arr

/-- the children the generator recurses into -/
def kidsOf (g : PGraph) (i : Nat) : List Nat :=
  match (g.get i).node with
  | .indexLambda _ _ binds _ => binds.map (·.2)
  | .roll c _ _ => [c]
  | .perm c _ => [c]
  | .reshape c _ => [c]
  | .stack cs _ => cs
  | .concat cs _ => cs
  | .index c ix => c :: ix.filterMap fun | .arr k => some k | _ => none
  | .indexNC c ix => c :: ix.filterMap fun | .arr k => some k | _ => none
  | .einsum _ cs => cs
  | .alias c => [c]
  | .dict items => items.map (·.2)
  | _ => []

/-- children strictly below parents -/
def WFG (g : PGraph) : Prop := ∀ i, ∀ c ∈ kidsOf g i, c < i

def wfG (g : PGraph) : Bool := (List.range g.size).all fun i => (kidsOf g i).all fun c => decide (c < i)

/-! ## the fragment `pygen_sound` covers (decidable; evaluated by the driver on every real graph) -/

/-- the annotation of a scalar operand is consistent with the literal's value in the exact domain:
    a non-finite spelling stands for a literal that is `undef` there -/
def scalarOK (f : ScalarForm) (c : SExpr) : Bool :=
  match f.cls with
  | .nan => Raise.litVal c == .undef
  | .posinf | .neginf => if f.isNpFloating then Raise.litVal c == .undef else true
  | .finite => true

def slotsOK (form : Nat → ScalarInfo → Gen ScalarForm) (lits : List ScalarInfo) :
    Nat → List Raise.Operand → Bool
  | _, [] => true
  | k, .arr _ :: os => slotsOK form lits (k + 1) os
  | k, .scalar c :: os =>
    (match findLit lits c with
     | some info => (match form k info with | .ok f => scalarOK f c | _ => false)
     | none => false) && slotsOK form lits (k + 1) os

def asIsForm : Nat → ScalarInfo → Gen ScalarForm := fun _ i => .ok i.asIs

def suppHlo (childShape : Nat → List (Option Nat)) (dt : DType) (binds : List (String × Nat))
    (lits : List ScalarInfo) : Raise.HLO → Bool
  | .full c =>
    (match findLit lits c with
     | some info => scalarOK info.asIs c
     | none => false) && (!dt.isDefaultFloat || kindOfTyname dt.tyname == .rat)
  | .binary op x1 x2 =>
    (match arithOp op with
     | some _ =>
       slotsOK (fun k i => arithForm dt (op == .truediv)
         (if k = 0 then Operand.isArr' x2 else Operand.isArr' x1) i) lits 0 [x1, x2]
     | none => slotsOK asIsForm lits 0 [x1, x2])
  | .call f args => Raise.c99Funcs.contains f && slotsOK asIsForm lits 0 args
  | .zerosLike _ => true
  | .where_ c t e => slotsOK asIsForm lits 0 [c, t, e]
  | .broadcast _ => true
  | .logicalNot _ => false
  | .reduce _ x axes =>
    (match (binds.find? (·.1 == x)).map (·.2) with
     | some c =>
       let dims := axes.map (·.1)
       let ndim := (childShape c).length
       if (List.range ndim).all dims.contains then dims == List.range ndim
       else dims == sortBy (fun a b => decide (a < b)) dims
     | none => false)

def notDict (g : PGraph) (c : Nat) : Bool :=
  match (g.get c).node with
  | .dict _ => false
  | _ => true

/-- node `i` is in the fragment (its children are checked separately) -/
def suppNode (g : PGraph) (i : Nat) : Bool :=
  let nd := g.get i
  (kidsOf g i).all (notDict g) &&
  match nd.node with
  | .placeholder _ => true
  | .dataWrapper _ => true
  | .indexLambda dt e binds lits =>
    (match staticShape nd.shape, bindShapes g binds with
     | some shape, .ok bs =>
       (match Raise.raise e shape bs with
        | some h => suppHlo (fun c => (g.get c).shape) dt binds lits h
        | none => false)
     | _, _ => false)
  | .roll _ _ axis => decide (axis ≥ 0)
  | .perm c p => (g.get c).shape.length == p.length
  | .reshape _ order => (order == "C" || order == "F") && (staticShape nd.shape).isSome
  | .stack _ axis => decide (axis ≥ 0)
  | .concat _ axis => decide (axis ≥ 0)
  | .index c ix =>
    -- basic indices whose slices are in the range of `_normalize_slice`, one entry per axis
    (match staticShape (g.get c).shape with
     | some cshape => basicNorm ix cshape
     | none => false)
  | .alias _ => true
  | .dict _ => true
  | _ => false

/-- the declared rank of every node is the rank of the array it denotes (shape inference is the
    subject of other properties; here it is a hypothesis about the graph and its inputs) -/
def RankOK (g : PGraph) (inp : Nat → Option (Arr Val)) : Prop :=
  ∀ c a, den g inp c = some a → a.shape.length = (g.get c).shape.length

/-- a static declared shape is the shape of the array the node denotes -/
def ShapeOK (g : PGraph) (inp : Nat → Option (Arr Val)) : Prop :=
  ∀ c a s, den g inp c = some a → staticShape (g.get c).shape = some s → a.shape = s

/-- every node reachable from `root` is in the fragment (fuel-indexed closure) -/
def suppAll (g : PGraph) : Nat → Nat → Bool
  | 0, _ => false
  | fuel + 1, i => suppNode g i && (kidsOf g i).all (suppAll g fuel)

/-- NumPy raises on none of the graph's operations for these inputs (operand shapes broadcast,
    every input is supplied): every node of the fragment has a value -/
def Defined (g : PGraph) (inp : Nat → Option (Arr Val)) : Prop :=
  ∀ j, suppNode g j = true → notDict g j = true → (den g inp j).isSome

/-! ## what the driver reports about a graph -/

def PNode.kindName : PNode → String
  | .placeholder _ => "Placeholder" | .dataWrapper _ => "DataWrapper" | .sizeParam _ => "SizeParam"
  | .indexLambda .. => "IndexLambda" | .roll .. => "Roll" | .perm .. => "AxisPermutation"
  | .reshape .. => "Reshape" | .stack .. => "Stack" | .concat .. => "Concatenate"
  | .index _ ix => if ix.any (fun | .arr _ => true | _ => false) then "AdvancedIndex" else "BasicIndex"
  | .indexNC .. => "AdvancedIndex"
  | .einsum .. => "Einsum" | .alias _ => "NamedArray" | .dict _ => "DictOfNamedArrays"
  | .refused k => k | .other k => k

/-- the check the driver evaluates: children below parents, every node (up to the root) in the
    fragment — this implies `WFG` and `suppAll` (`PtProofs.C14PyGen.fragment_check_sound`) -/
def fragmentCheck (g : PGraph) (root : Nat) : Bool :=
  wfG g && (List.range (root + 1)).all (suppNode g)

/-- kinds of the nodes that are outside the fragment -/
def outsideFragment (g : PGraph) (root : Nat) : List String :=
  (((List.range (root + 1)).filter fun j => !suppNode g j).map fun j => (g.get j).node.kindName).eraseDups

end Py
end Pt

/-
  ptdriver queries of the `dist` family: `(dist <query> args…)`.
  `none` = unparsable query.

    (dist checkwf P)                 -> "true" | "false (r clause)…"
    (dist checkwfexec P)             -> same, for the clauses the executor needs (`WFexec`)
    (dist levels P)                  -> "((r pid lvl)…)"
    (dist trace P (event…))          -> "ok <steps>" | "bad <k> <reason>"
    (dist batches G)                 -> "(((src dst tag)…)…)"
    (dist diagnose n G)              -> "<ok|Class> (violated…) (find (r outcome)…) (verify …)"
    (dist numbertags base ((t…)…))   -> "((t k)…) next"
    (dist partition base PROG)       -> the model's partition of PROG in the P format (names: user
                                        names as given, generated names = base + node id)
                                        PROG ::= (rank…)  rank ::= ((node…) ((outname node)…))
                                        node ::= (id in name st) | (id data st) | (id recv src tag st)
                                               | (id op st arg…) | (id send data dst tag pass)
    (dist verifymodel P ((rank pid (pin…))…))
                                     -> "accepts" | "raises <classes>" (model of verify_distributed_partition)
    (dist skeleton n G ((rank dst tag data)…))
                                     -> per rank "((pid (needs) (recv ids) ((data (send ids))…))…)"

    P ::= (rank…)      rank ::= ((part…) (user…) (overall…))
    part ::= (pid (needs…) (inputs…) (outputs…) ((name src tag)…) ((name dst tag)…) pure)
    G ::= ((send…) (recv…))   send ::= (rank dst tag ((src tag)…))   recv ::= (rank src tag)
-/
import PtModel.Sexp
import PtModel.Dist
import PtModel.Partition
import PtModel.Verify
namespace Pt
open Pt.Dist

namespace DistIO

def showNatList (vs : List Nat) : String := "(" ++ " ".intercalate (vs.map toString) ++ ")"

def sortNats (l : List Nat) : List Nat := (l.mergeSort (fun a b => decide (a ≤ b))).eraseDups

def pairLe (a b : Nat × Nat) : Bool := a.1 < b.1 || (a.1 == b.1 && a.2 ≤ b.2)
def sortPairs (l : List (Nat × Nat)) : List (Nat × Nat) := (l.mergeSort pairLe).eraseDups

def parseTriple : Sx → Option (Nat × Nat × Nat)
  | .list [a, b, c] => do some (← a.asNat?, ← b.asNat?, ← c.asNat?)
  | _ => none

def parsePair : Sx → Option (Nat × Nat)
  | .list [a, b] => do some (← a.asNat?, ← b.asNat?)
  | _ => none

def parsePart : Sx → Option Part
  | .list [pid, needs, ins, outs, .list recvs, .list sends, pure] => do
    let rs ← recvs.mapM parseTriple
    let ss ← sends.mapM parseTriple
    some { pid := ← pid.asNat?, needs := ← needs.asNats?, inputs := ← ins.asNats?,
           outputs := ← outs.asNats?,
           recvs := rs.map fun t => ⟨t.1, t.2.1, t.2.2⟩,
           sends := ss.map fun t => ⟨t.1, t.2.1, t.2.2⟩,
           pure := (← pure.asNat?) != 0 }
  | _ => none

def parseRank : Sx → Option RankProg
  | .list [.list parts, user, overall] => do
    some { parts := ← parts.mapM parsePart, user := ← user.asNats?, overall := ← overall.asNats? }
  | _ => none

def parsePartition : Sx → Option Partition
  | .list ranks => ranks.mapM parseRank
  | _ => none

def parseGraph : Sx → Option CommGraph
  | .list [.list sends, .list recvs] => do
    let ss ← sends.mapM fun
      | .list [r, d, t, .list deps] => do
        some (⟨← r.asNat?, ← d.asNat?, ← t.asNat?, ← deps.mapM parsePair⟩ : SendOp)
      | _ => none
    let vs ← recvs.mapM fun x => do
      let t ← parseTriple x
      some (⟨t.1, t.2.1, t.2.2⟩ : RecvOp)
    some ⟨ss, vs⟩
  | _ => none

/-! ### programs (PtModel.Partition) -/

def parseNode : Sx → Option PNode
  | .list [i, .atom "in", nm, st] => do some ⟨← i.asNat?, .input (← nm.asNat?), (← st.asNat?) != 0⟩
  | .list [i, .atom "data", st] => do some ⟨← i.asNat?, .data, (← st.asNat?) != 0⟩
  | .list [i, .atom "recv", a, t, st] => do some ⟨← i.asNat?, .recv (← a.asNat?) (← t.asNat?), (← st.asNat?) != 0⟩
  | .list (i :: .atom "op" :: st :: args) => do
    some ⟨← i.asNat?, .op (← args.mapM Sx.asNat?), (← st.asNat?) != 0⟩
  | .list [i, .atom "send", d, dst, t, pas] => do
    some ⟨← i.asNat?, .send (← d.asNat?) (← dst.asNat?) (← t.asNat?) (← pas.asNat?), false⟩
  | _ => none

def parseProgram : Sx → Option Program
  | .list ranks => ranks.mapM fun
    | .list [.list nodes, .list outs] => do
      some ⟨← nodes.mapM parseNode, ← outs.mapM parsePair⟩
    | _ => none
  | _ => none

def showPartition (P : Partition) : String :=
  "(" ++ " ".intercalate (P.map fun rp =>
    let parts := rp.parts.map fun p =>
      let recvs := " ".intercalate (p.recvs.map fun x => s!"({x.name} {x.src} {x.tag})")
      let sends := " ".intercalate (p.sends.map fun x => s!"({x.name} {x.dst} {x.tag})")
      s!"({p.pid} {showNatList p.needs} {showNatList (sortNats p.inputs)} {showNatList (sortNats p.outputs)} ({recvs}) ({sends}) 1)"
    s!"(({" ".intercalate parts}) {showNatList (sortNats rp.user)} {showNatList rp.overall})") ++ ")"

/-! ### trace checking -/

def unitSem : Sem Unit := { run := fun _ _ _ _ => (), input := fun _ _ => () }

/-- every name rank `r` can ever hold -/
def rankNames (P : Partition) (r : Nat) : List Name :=
  P.user r ++ (P.parts r).flatMap fun p => p.inputs ++ p.outputs ++ p.recvNames

def ctxKeys (P : Partition) (s : GState Unit) (r : Nat) : List Nat :=
  sortNats ((rankNames P r).filter fun n => ((s.rk r).ctx n).isSome)

def availIds (P : Partition) (s : GState Unit) (r : Nat) : List (Nat × Nat) :=
  sortPairs (((allRecvs (P.parts r)).filter fun rc =>
    decide (pending P s r rc ∧ arrived P s r rc)).map fun rc => (rc.src, rc.tag))

structure Snap where
  ctx : List Nat
  executed : List Nat
  completed : List Nat
  rcs : List (Nat × Nat)

def parseSnap (a b c d : Sx) : Option Snap := do
  let rcs ← (← d.asList?).mapM parsePair
  some ⟨← a.asNats?, ← b.asNats?, ← c.asNats?, rcs⟩

def checkSnap (P : Partition) (s : GState Unit) (r : Nat) (sn : Snap) : Option String :=
  let st := s.rk r
  if ctxKeys P s r != sortNats sn.ctx then
    some s!"context-keys model={showNatList (ctxKeys P s r)} real={showNatList (sortNats sn.ctx)}"
  else if sortNats st.executed != sortNats sn.executed then
    some s!"executed model={showNatList (sortNats st.executed)} real={showNatList (sortNats sn.executed)}"
  else if sortNats st.completed != sortNats sn.completed then
    some s!"completed model={showNatList (sortNats st.completed)} real={showNatList (sortNats sn.completed)}"
  else match sn.rcs.find? (fun nc => st.rc nc.1 != nc.2) with
    | some nc => some s!"refcount name={nc.1} model={st.rc nc.1} real={nc.2}"
    | none => none

/-- run one event; `Except reason state` -/
def stepEvent (P : Partition) (s : GState Unit) : Sx → Except String (GState Unit)
  | .list [.atom "x", r, pid, a, b, c, d] =>
    match r.asNat?, pid.asNat?, parseSnap a b c d with
    | some r, some pid, some sn =>
      match checkSnap P s r sn with
      | some why => .error s!"exec-snapshot r={r} pid={pid} {why}"
      | none =>
        match (P.parts r).find? (fun p => p.pid == pid) with
        | none => .error s!"exec-unknown-part r={r} pid={pid}"
        | some p =>
          if r < P.length ∧ p.ready (s.rk r) then .ok (execG unitSem P s r p)
          else .error s!"exec-not-enabled r={r} pid={pid}"
    | _, _, _ => .error "parse-x"
  | .list [.atom "w", r, a, b, c, d] =>
    match r.asNat?, parseSnap a b c d with
    | some r, some sn =>
      match checkSnap P s r sn with
      | some why => .error s!"wait-snapshot r={r} {why}"
      | none =>
        if anyReady P s r then .error s!"wait-while-ready r={r}"
        else if ¬ unfinished P s r then .error s!"wait-when-finished r={r}"
        else .ok s
    | _, _ => .error "parse-w"
  | .list (.atom "c" :: ranks) =>
    let parsed := ranks.mapM fun
      | .list (r :: ids) => do some (← r.asNat?, sortPairs (← ids.mapM parsePair))
      | _ => none
    match parsed with
    | none => .error "parse-c"
    | some rs =>
      match rs.find? (fun x => availIds P s x.1 != x.2) with
      | some x => .error s!"available-set r={x.1}"
      | none =>
        match (List.range P.length).find? (fun r => !(rs.any fun x => x.1 == r) && decide (unfinished P s r)) with
        | some r => .error s!"rank-not-waiting-but-unfinished r={r}"
        | none => .ok s
  | .list (.atom "d" :: r :: ids) =>
    match r.asNat?, ids.mapM parsePair with
    | some r, some ids =>
      let S := (allRecvs (P.parts r)).filter fun rc => ids.contains (rc.src, rc.tag)
      if S.length != ids.length then .error s!"deliver-unknown-receive r={r}"
      else if r < P.length ∧ S ≠ [] ∧ (∀ rc ∈ S, pending P s r rc ∧ arrived P s r rc)
          ∧ ¬ anyReady P s r ∧ unfinished P s r then .ok (deliverG s r S)
      else .error s!"deliver-not-enabled r={r}"
    | _, _ => .error "parse-d"
  | .list [.atom "f", r] =>
    match r.asNat? with
    | some r => if unfinished P s r then .error s!"finished-but-model-unfinished r={r}" else .ok s
    | none => .error "parse-f"
  | .list [.atom "t"] =>
    if (List.range P.length).all fun r => !decide (unfinished P s r) then .ok s
    else .error "not-terminal"
  | _ => .error "parse-event"

def runTrace (P : Partition) : Nat → GState Unit → List Sx → String
  | k, _, [] => s!"ok {k}"
  | k, s, e :: es =>
    match stepEvent P s e with
    | .ok s' => runTrace P (k + 1) s' es
    | .error why => s!"bad {k} {why}"

def showOutcome : RankOutcome → String
  | .raises ds => "(raises " ++ " ".intercalate (ds.map Diag.name) ++ ")"
  | .blocked => "(blocked)"
  | .returns => "(returns)"

def showId (c : CommId) : String := s!"({c.src} {c.dst} {c.tag})"

end DistIO

open DistIO in
def handleDist : List Sx → Option String
  | [.atom "checkwf", p] => do
    let P ← parsePartition p
    if checkWF P then some "true"
    else some ("false " ++ " ".intercalate (((failingClauses P).filter fun x => !nonWFClauses.contains x.2).map
      fun x => s!"({x.1} {x.2})"))
  | [.atom "checkwfexec", p] => do
    let P ← parsePartition p
    if checkWFexec P then some "true"
    else some ("false " ++ " ".intercalate (((failingClauses P).filter fun x => execClauses.contains x.2).map
      fun x => s!"({x.1} {x.2})"))
  | [.atom "levels", p] => do
    let P ← parsePartition p
    let lvl := computeLvl P
    some ("(" ++ " ".intercalate ((partNodes P).map fun x => s!"({x.1} {x.2} {lvl x.1 x.2})") ++ ")")
  | [.atom "trace", p, .list events] => do
    let P ← parsePartition p
    some (runTrace P 0 (init unitSem P) events)
  | [.atom "batches", g] => do
    let G ← parseGraph g
    some ("(" ++ " ".intercalate (G.batches.map fun b => "(" ++ " ".intercalate (b.map showId) ++ ")") ++ ")")
  | [.atom "diagnose", n, g] => do
    let G ← parseGraph g
    let n ← n.asNat?
    let verdict := match diagnose G with
      | .ok _ => "ok"
      | .error d => d.name
    let viol := " ".intercalate ((violated G).map Diag.name)
    let find := " ".intercalate ((List.range n).map fun r => s!"({r} {showOutcome (findOutcome G n r)})")
    let ver := " ".intercalate ((verifyOutcome G).map Diag.name)
    some s!"{verdict} (violated {viol}) (find {find}) (verify {ver})"
  | [.atom "skeleton", n, g, .list datas] => do
    -- datas: ((rank dst tag data)…) — node index of the array each send sends
    let G ← parseGraph g
    let n ← n.asNat?
    let ds ← datas.mapM fun
      | .list [a, b, c, d] => do some ((⟨← a.asNat?, ← b.asNat?, ← c.asNat?⟩ : CommId), ← d.asNat?)
      | _ => none
    let dataOf : CommId → Nat := fun c => match ds.find? (fun x => x.1 == c) with
      | some x => x.2
      | none => 0
    let showIds := fun (l : List CommId) => "(" ++ " ".intercalate (l.map showId) ++ ")"
    let ranks := (skeleton n G).map fun parts =>
      "(" ++ " ".intercalate (parts.zipIdx.map fun (p, pid) =>
        let groups := (groupSends dataOf p.sends).map fun (d, l) => s!"({d} {showIds l})"
        s!"({pid} {showNatList (chainNeeds pid)} {showIds p.recvs} ({" ".intercalate groups}))") ++ ")"
    some ("(" ++ " ".intercalate ranks ++ ")")
  | [.atom "verifymodel", p, .list pins] => do
    -- pins: ((rank pid (name…))…) = partition_input_names per part
    let P ← parsePartition p
    let ps ← pins.mapM fun
      | .list [r, pid, names] => do some (← r.asNat?, ← pid.asNat?, ← names.asNats?)
      | _ => none
    let pin : PinOf := fun r pid => match ps.find? (fun x => x.1 == r && x.2.1 == pid) with
      | some x => x.2.2
      | none => []
    let v := verifyViolated P pin
    some (if v.isEmpty then "accepts" else "raises " ++ " ".intercalate (v.map VDiag.name))
  | [.atom "checknames", base, prog] => do
    let p ← parseProgram prog
    some (if checkNames (← base.asNat?) p then "true" else "false")
  | [.atom "checkgood", prog] => do
    -- the decidable hypothesis of partition_wf_partial, with the failing part
    let p ← parseProgram prog
    let diag := match diagnose p.commGraph with
      | .ok _ => "ok"
      | .error d => d.name
    let ranks := (List.range p.length).map fun r =>
      let s := p.rank r
      let pv := (s.sendsOf r).all fun cd => (s.structDeps cd.2).all fun a => !s.isRecv a || (s.valueDeps cd.2).contains a
      let nf := (s.sendsOf r).all fun cd => !s.isRecv cd.2
      s!"({r} {if s.closedB then 1 else 0} {if pv then 1 else 0} {if nf then 1 else 0})"
    some s!"{diag} ({" ".intercalate ranks})"
  | [.atom "partition", base, prog] => do
    let p ← parseProgram prog
    some (showPartition (partitionOf (← base.asNat?) p))
  | [.atom "numbertags", base, .list ranks] => do
    let base ← base.asNat?
    let gathered ← ranks.mapM Sx.asNats?
    let (m, next) := numberTags base gathered
    some ("(" ++ " ".intercalate (m.map fun x => s!"({x.1} {x.2})") ++ s!") {next}")
  | _ => none

end Pt

/-
  ptdriver queries of the `dist` family: `(dist <query> args…)`.
  `none` = unparsable query.
-/
import PtModel.Sexp
namespace Pt

def handleDist : List Sx → Option String
  | _ => none

end Pt

/-
  PtModel.LoopyGen — model of pytato's loopy STATEMENT GENERATOR
  (`pytato/target/loopy/codegen.py`: `generate_loopy`'s loop over the outputs,
  `CodeGenMapper.map_index_lambda` / `map_placeholder`, `InlinedExpressionGenMapper`,
  `StoredResult` / `InlinedResult.to_loopy_expression`, `add_store`), applied to the graph
  `pytato.codegen.preprocess` hands it: index lambdas over placeholders (data wrappers are
  placeholders by then), the outputs in `compute_order`.

  The result is the kernel AS READ BACK by `harness/kernelir.py` (`Pt.Kernel`): one store per
  stored array over the box of its inames; the private scalars holding hoisted reduction bounds
  are the store's per-iteration `lets` (for a 0-d result, which has no inames, they are
  statements of their own); substitution rules are expanded, so `ImplSubstitution` reads like
  inlining; reduction bounds are spelled as loopy/isl report them (`l`, `-1 + u + 1` for a
  hoisted pair).

  What is modelled
  * which arrays are stored: the outputs (each by `add_store` under its own name, in compute
    order; a later output that uses an earlier one reads the stored array and depends on its
    store), index lambdas tagged `ImplStored`, and index lambdas with a reduction bound that
    `is_quasi_affine` rejects (an ORACLE supplied by the serialiser: with the installed loopy it
    rejects every bound, so every reduction is materialised);
  * inlining of everything else: a subscript `a[i…]` of an inlined binding is the binding's
    expression with `_d ↦ i_d` (`loopy_substitute`), of a stored one `name[i…]` plus its
    dependencies; `pytato.zero(…)` is `0`; Boolean constants are their integer values;
    reduction variables get unique names;
  * names: `UniqueNameGenerator` (`Pt.NameGen`) for temporaries (`_pt_temp`, `Named`,
    `PrefixNamed`), inames (`<name>_dim<d>`), reduction inames (`_pt_<op><var>`), bound
    temporaries (`…_lbound` / `…_ubound`); a second generator for instruction ids
    (`<name>_store`);
  * empty results: a no-op instruction carrying the id and the dependencies.

  What is refused / outside: symbolic shapes (size parameters), loopy calls, function calls,
  named-array containers inside the graph, unknown implementation strategies (the real code
  raises), genuinely nested `Reduce` nodes.
-/
import PtModel.Kernel
import PtModel.Names
namespace Pt
namespace LG

/-! ## results -/

inductive Res (α : Type) where
  | ok (a : α)
  /-- the real generator raises -/
  | refuse (why : String)
  /-- outside the model -/
  | unmodelled (why : String)

def Res.bind {α β : Type} (x : Res α) (f : α → Res β) : Res β :=
  match x with
  | .ok a => f a
  | .refuse w => .refuse w
  | .unmodelled w => .unmodelled w

instance : Monad Res where
  pure := .ok
  bind := Res.bind

def Res.ofOption {α : Type} (w : String) : Option α → Res α
  | some a => .ok a
  | none => .unmodelled w

/-! ## the graph -/

inductive NameTag where
  | none
  | named (n : String)
  | prefixed (p : String)
deriving Repr, Inhabited

inductive Strategy where
  | default | stored | inlined | subst
  | unknown (s : String)
deriving Repr, Inhabited

/-- a reduction variable of an index lambda -/
structure RVar where
  /-- as in the expression (`_r0`) -/
  name : String
  /-- loopy's name of the operation (`PYTATO_REDUCTION_TO_LOOPY_REDUCTION`) -/
  op : String
  /-- ORACLE: `is_quasi_affine` of the generated lower / upper bound -/
  loAffine : Bool
  hiAffine : Bool
deriving Repr, Inhabited

inductive LNode where
  /-- `Placeholder` (or a preprocessed `DataWrapper`): an array argument -/
  | input (name : String) (shape : Shape)
  /-- `binds` sorted by name; `uniqOrder` = the variables in the order of `var_to_reduction_descr`
      (the order unique names are drawn); `rvars` in the order of `var_to_reduction` (the order bound
      temporaries are made) -/
  | indexLambda (shape : Shape) (e : SExpr) (binds : List (String × Nat)) (impl : Strategy)
      (tag : NameTag) (uniqOrder : List String) (rvars : List RVar)
  | refused (why : String)
  | other (why : String)
deriving Inhabited

abbrev LGraph := Array LNode

def LGraph.get (g : LGraph) (i : Nat) : LNode :=
  match g[i]? with
  | some n => n
  | none => .other "out-of-range"

/-! ## implemented results -/

/-- `ImplementedResult`: `StoredResult(name, …, depends_on)` or `InlinedResult(expr, …, depends_on)`
    (a `SubstitutionRuleResult` reads, once the rule is expanded, like the inlined expression) -/
inductive Impl where
  | stored (name : String) (deps : List String)
  | inlined (e : SExpr) (deps : List String)
deriving Inhabited

def Impl.deps : Impl → List String
  | .stored _ d => d
  | .inlined _ d => d

mutual
/-- `loopy_substitute(expr, {"_d": s[d]})` -/
def substIdx (s : List SExpr) : SExpr → SExpr
  | .int n => .int n
  | .bool b => .bool b
  | .rat p q => .rat p q
  | .nan => .nan
  | .idx k => (match s[k]? with | some e => e | none => .idx k)
  | .var x => .var x
  | .sub a ix => .sub a (substIdxList s ix)
  | .add a c => .add (substIdx s a) (substIdx s c)
  | .mul a c => .mul (substIdx s a) (substIdx s c)
  | .quot a c => .quot (substIdx s a) (substIdx s c)
  | .fdiv a c => .fdiv (substIdx s a) (substIdx s c)
  | .rem a c => .rem (substIdx s a) (substIdx s c)
  | .pow a c => .pow (substIdx s a) (substIdx s c)
  | .cmp op a c => .cmp op (substIdx s a) (substIdx s c)
  | .land a c => .land (substIdx s a) (substIdx s c)
  | .lor a c => .lor (substIdx s a) (substIdx s c)
  | .lnot a => .lnot (substIdx s a)
  | .ite c t e => .ite (substIdx s c) (substIdx s t) (substIdx s e)
  | .reduce op v lo hi body => .reduce op v (substIdx s lo) (substIdx s hi) (substIdx s body)
  | .call f args => .call f (substIdxList s args)
  | .cast dt a => .cast dt (substIdx s a)
def substIdxList (s : List SExpr) : List SExpr → List SExpr
  | [] => []
  | e :: es => substIdx s e :: substIdxList s es
end

/-- `to_loopy_expression(indices, …)` (the dependencies are collected separately: `Impl.deps`) -/
def Impl.toExpr (indices : List SExpr) : Impl → SExpr
  | .stored name _ => if indices.isEmpty then .var name else .sub name indices
  | .inlined e _ => substIdx indices e

def lookupNs (ns : List (String × Impl)) (x : String) : Option Impl :=
  (ns.find? (·.1 == x)).map (·.2)

/-! ## the expression generator -/

def lookupStr (ρ : List (String × String)) (x : String) : Option String :=
  (ρ.find? (·.1 == x)).map (·.2)

mutual
/-- reduction variables ↦ their unique names: the binders and (`loopy_substitute` on the inner
    expressions) their occurrences; bounds are left as they are -/
def renameRed (ρ : List (String × String)) : SExpr → SExpr
  | .int n => .int n
  | .bool b => .bool b
  | .rat p q => .rat p q
  | .nan => .nan
  | .idx k => .idx k
  | .var x => (match lookupStr ρ x with | some y => .var y | none => .var x)
  | .sub a ix => .sub a (renameRedList ρ ix)
  | .add a c => .add (renameRed ρ a) (renameRed ρ c)
  | .mul a c => .mul (renameRed ρ a) (renameRed ρ c)
  | .quot a c => .quot (renameRed ρ a) (renameRed ρ c)
  | .fdiv a c => .fdiv (renameRed ρ a) (renameRed ρ c)
  | .rem a c => .rem (renameRed ρ a) (renameRed ρ c)
  | .pow a c => .pow (renameRed ρ a) (renameRed ρ c)
  | .cmp op a c => .cmp op (renameRed ρ a) (renameRed ρ c)
  | .land a c => .land (renameRed ρ a) (renameRed ρ c)
  | .lor a c => .lor (renameRed ρ a) (renameRed ρ c)
  | .lnot a => .lnot (renameRed ρ a)
  | .ite c t e => .ite (renameRed ρ c) (renameRed ρ t) (renameRed ρ e)
  | .reduce op v lo hi body =>
    .reduce op (match lookupStr ρ v with | some y => y | none => v) lo hi (renameRed ρ body)
  | .call f args => .call f (renameRedList ρ args)
  | .cast dt a => .cast dt (renameRed ρ a)
def renameRedList (ρ : List (String × String)) : List SExpr → List SExpr
  | [] => []
  | e :: es => renameRed ρ e :: renameRedList ρ es
end

/-- `ReductionBoundsReplacer`: the bounds of the reduction over `v` become `nb v` -/
def replaceBounds (nb : List (String × SExpr × SExpr)) : SExpr → SExpr
  | .reduce op v lo hi body =>
    (match nb.find? (·.1 == v) with
     | some (_, l, h) => .reduce op v l h (replaceBounds nb body)
     | none => .reduce op v lo hi (replaceBounds nb body))
  | .add a c => .add (replaceBounds nb a) (replaceBounds nb c)
  | .mul a c => .mul (replaceBounds nb a) (replaceBounds nb c)
  | .quot a c => .quot (replaceBounds nb a) (replaceBounds nb c)
  | .fdiv a c => .fdiv (replaceBounds nb a) (replaceBounds nb c)
  | .rem a c => .rem (replaceBounds nb a) (replaceBounds nb c)
  | .pow a c => .pow (replaceBounds nb a) (replaceBounds nb c)
  | .cmp op a c => .cmp op (replaceBounds nb a) (replaceBounds nb c)
  | .land a c => .land (replaceBounds nb a) (replaceBounds nb c)
  | .lor a c => .lor (replaceBounds nb a) (replaceBounds nb c)
  | .lnot a => .lnot (replaceBounds nb a)
  | .ite c t e => .ite (replaceBounds nb c) (replaceBounds nb t) (replaceBounds nb e)
  | .cast dt a => .cast dt (replaceBounds nb a)
  -- reductions under subscripts / call arguments do not occur in what pytato builds
  | e => e

mutual
/-- `InlinedExpressionGenMapper` (`scope` = the reduction inames in scope, already unique);
    `none` = a name that is neither an index, a reduction variable in scope nor a binding -/
def gen (ns : List (String × Impl)) (scope : List String) : SExpr → Option SExpr
  | .int n => some (.int n)
  | .bool b => some (.int (if b then 1 else 0))
  | .rat p q => some (.rat p q)
  | .nan => some .nan
  | .idx k => some (.idx k)
  | .var x =>
    if scope.contains x then some (.var x)
    else (match lookupNs ns x with | some r => some (r.toExpr []) | none => none)
  | .sub a ix =>
    (match genList ns scope ix, lookupNs ns a with
     | some ix', some r => some (r.toExpr ix')
     | _, _ => none)
  | .add a c => (match gen ns scope a, gen ns scope c with | some x, some y => some (.add x y) | _, _ => none)
  | .mul a c => (match gen ns scope a, gen ns scope c with | some x, some y => some (.mul x y) | _, _ => none)
  | .quot a c => (match gen ns scope a, gen ns scope c with | some x, some y => some (.quot x y) | _, _ => none)
  | .fdiv a c => (match gen ns scope a, gen ns scope c with | some x, some y => some (.fdiv x y) | _, _ => none)
  | .rem a c => (match gen ns scope a, gen ns scope c with | some x, some y => some (.rem x y) | _, _ => none)
  | .pow a c => (match gen ns scope a, gen ns scope c with | some x, some y => some (.pow x y) | _, _ => none)
  | .cmp op a c =>
    (match gen ns scope a, gen ns scope c with | some x, some y => some (.cmp op x y) | _, _ => none)
  | .land a c => (match gen ns scope a, gen ns scope c with | some x, some y => some (.land x y) | _, _ => none)
  | .lor a c => (match gen ns scope a, gen ns scope c with | some x, some y => some (.lor x y) | _, _ => none)
  | .lnot a => (match gen ns scope a with | some x => some (.lnot x) | none => none)
  | .ite c t e =>
    (match gen ns scope c, gen ns scope t, gen ns scope e with
     | some x, some y, some z => some (.ite x y z)
     | _, _, _ => none)
  | .reduce op v lo hi body =>
    (match gen ns scope lo, gen ns scope hi, gen ns (v :: scope) body with
     | some l, some h, some b => some (.reduce op v l h b)
     | _, _, _ => none)
  | .call f args =>
    if f == "pytato.zero" then some (.int 0)
    else (match genList ns scope args with | some as => some (.call f as) | none => none)
  | .cast dt a => (match gen ns scope a with | some x => some (.cast dt x) | none => none)
def genList (ns : List (String × Impl)) (scope : List String) : List SExpr → Option (List SExpr)
  | [] => some []
  | e :: es => (match gen ns scope e, genList ns scope es with | some x, some xs => some (x :: xs) | _, _ => none)
end

mutual
/-- the instruction ids `to_loopy_expression` adds to `depends_on` on the way -/
def genDeps (ns : List (String × Impl)) (scope : List String) : SExpr → List String
  | .int _ | .bool _ | .rat _ _ | .nan | .idx _ => []
  | .var x =>
    if scope.contains x then [] else (match lookupNs ns x with | some r => r.deps | none => [])
  | .sub a ix =>
    genDepsList ns scope ix ++ (match lookupNs ns a with | some r => r.deps | none => [])
  | .add a c | .mul a c | .quot a c | .fdiv a c | .rem a c | .pow a c | .cmp _ a c | .land a c | .lor a c =>
    genDeps ns scope a ++ genDeps ns scope c
  | .lnot a | .cast _ a => genDeps ns scope a
  | .ite c t e => genDeps ns scope c ++ genDeps ns scope t ++ genDeps ns scope e
  | .reduce _ v lo hi body => genDeps ns scope lo ++ genDeps ns scope hi ++ genDeps ns (v :: scope) body
  | .call f args => if f == "pytato.zero" then [] else genDepsList ns scope args
def genDepsList (ns : List (String × Impl)) (scope : List String) : List SExpr → List String
  | [] => []
  | e :: es => genDeps ns scope e ++ genDepsList ns scope es
end

/-! ## sorted sets of ids -/

def insertStr (x : String) : List String → List String
  | [] => [x]
  | y :: r => if x < y then x :: y :: r else if x == y then y :: r else y :: insertStr x r

/-- sorted, without duplicates (`sorted(frozenset(…))`) -/
def normDeps : List String → List String
  | [] => []
  | x :: r => insertStr x (normDeps r)

/-! ## statements -/

/-- the read-back spelling of a reduction whose bounds were hoisted into `l`, `u` -/
def hoistedLo (l : String) : SExpr := .var l
def hoistedHi (u : String) : SExpr := .add (.add (.int (-1)) (.var u)) (.int 1)

def box (inames : List String) (shape : Shape) : List (String × SExpr × SExpr) :=
  (inames.zip shape).map fun p => (p.1, .int 0, .int (p.2 : Nat))

def isEmptyShape (shape : Shape) : Bool := shape.any (· == 0)

structure St where
  /-- `state.var_name_gen` -/
  vng : NameGen
  /-- `state.insn_id_gen` -/
  ing : NameGen
  /-- `state.results` -/
  results : List (Nat × Impl)
  /-- the instructions, latest first -/
  stmts : List KStmt
deriving Inhabited

def St.var (st : St) (base : String) : Res (String × St) :=
  match st.vng.gen base with
  | some (n, g) => .ok (n, { st with vng := g })
  | none => .unmodelled "name generator exhausted"

def St.insnId (st : St) (base : String) : Res (String × St) :=
  match st.ing.gen base with
  | some (n, g) => .ok (n, { st with ing := g })
  | none => .unmodelled "id generator exhausted"

def St.vars (st : St) : List String → Res (List String × St)
  | [] => .ok ([], st)
  | b :: bs =>
    (st.var b).bind fun r => (St.vars r.2 bs).bind fun rs => .ok (r.1 :: rs.1, rs.2)

def St.emit (st : St) (s : KStmt) : St := { st with stmts := s :: st.stmts }

def St.remember (st : St) (i : Nat) (r : Impl) : St := { st with results := (i, r) :: st.results }

def lookupResult (rs : List (Nat × Impl)) (i : Nat) : Option Impl := (rs.find? (·.1 == i)).map (·.2)

/-- `_generate_name_for_temp` -/
def tempName (st : St) (tag : NameTag) : Res (String × St) :=
  match tag with
  | .none => st.var "_pt_temp"
  | .prefixed p => st.var p
  | .named n =>
    if st.vng.existing.contains n then .refuse "ValueError(name conflicts with an existing name)"
    else .ok (n, { st with vng := { st.vng with existing := n :: st.vng.existing } })

def dimNames (name : String) (ndim : Nat) : List String :=
  (List.range ndim).map fun d => name ++ "_dim" ++ toString d

def inameVars (inames : List String) : List SExpr := inames.map .var

/-- `add_store(name, shape, …, result, …)` with the given inames: the statement (a no-op for an
    empty result) -/
def storeStmt (id name : String) (inames : List String) (shape : Shape) (lets : List (String × SExpr))
    (rhs : SExpr) (deps : List String) : KStmt :=
  if isEmptyShape shape then
    { id := id, lhs := "", lhsIdx := [], loops := [], lets := [], rhs := .int 0, deps := normDeps deps, noop := true }
  else
    { id := id, lhs := name, lhsIdx := inameVars inames, loops := box inames shape, lets := lets, rhs := rhs,
      deps := normDeps deps }

/-- one hoisted bound: its temporary, its instruction id, its (generated) expression -/
structure Hoisted where
  var : String
  temp : String
  id : String
  e : SExpr

/-- the bounds of one reduction variable as found in the expression -/
def boundsOf (v : String) : SExpr → Option (SExpr × SExpr)
  | .reduce _ w lo hi body => if w == v then some (lo, hi) else boundsOf v body
  | .add a c | .mul a c | .quot a c | .fdiv a c | .rem a c | .pow a c | .cmp _ a c | .land a c | .lor a c =>
    (match boundsOf v a with | some r => some r | none => boundsOf v c)
  | .lnot a | .cast _ a => boundsOf v a
  | .ite c t e =>
    (match boundsOf v c with
     | some r => some r
     | none => match boundsOf v t with | some r => some r | none => boundsOf v e)
  | _ => none

def insertLet (x : String × SExpr) : List (String × SExpr) → List (String × SExpr)
  | [] => [x]
  | y :: r => if x.1 < y.1 then x :: y :: r else y :: insertLet x r

def sortLets : List (String × SExpr) → List (String × SExpr)
  | [] => []
  | x :: r => insertLet x (sortLets r)

/-- hoist the non-affine bounds of the reduction variables (in order; lower before upper) -/
def hoistBounds (ns : List (String × Impl)) (uniq : List (String × String)) (e : SExpr) (empty : Bool) :
    List RVar → St → Res (List Hoisted × List (String × SExpr × SExpr) × St)
  | [], st => .ok ([], [], st)
  | rv :: rest, st =>
    match boundsOf rv.name e, lookupStr uniq rv.name with
    | some (lo, hi), some u =>
      let one (pfx : String) (b : SExpr) (affine : Bool) (st : St) :
          Res (Option Hoisted × SExpr × St) :=
        if affine then .ok (none, b, st)
        else if empty then .ok (none, .int 0, st)
        else
          match gen ns [] b with
          | none => .unmodelled "reduction bound refers to an unknown name"
          | some lb =>
            (st.var (u ++ "_" ++ pfx ++ "bound")).bind fun t =>
              (t.2.insnId (t.1 ++ "_store")).bind fun i =>
                .ok (some { var := rv.name, temp := t.1, id := i.1, e := lb }, .var t.1, i.2)
      (one "l" lo rv.loAffine st).bind fun l =>
        (one "u" hi rv.hiAffine l.2.2).bind fun h =>
          (hoistBounds ns uniq e empty rest h.2.2).bind fun r =>
            .ok (l.1.toList ++ h.1.toList ++ r.1, (rv.name, l.2.1, h.2.1) :: r.2.1, r.2.2)
    | _, _ => .unmodelled "reduction variable without bounds"

/-- the reduction bounds as loopy reports them for the final kernel: a hoisted pair `l`, `u` reads
    `l`, `-1 + u + 1`; constant bounds left in the domain read as the integers -/
def readBackBounds (hs : List Hoisted) (uniq : List (String × String)) : SExpr → SExpr
  | .reduce op v lo hi body =>
    let fix (b : SExpr) (isHi : Bool) : SExpr :=
      match b with
      | .var t => if hs.any (·.temp == t) then (if isHi then hoistedHi t else hoistedLo t) else b
      | b => b
    .reduce op v (fix lo false) (fix hi true) (readBackBounds hs uniq body)
  | .add a c => .add (readBackBounds hs uniq a) (readBackBounds hs uniq c)
  | .mul a c => .mul (readBackBounds hs uniq a) (readBackBounds hs uniq c)
  | .quot a c => .quot (readBackBounds hs uniq a) (readBackBounds hs uniq c)
  | .fdiv a c => .fdiv (readBackBounds hs uniq a) (readBackBounds hs uniq c)
  | .rem a c => .rem (readBackBounds hs uniq a) (readBackBounds hs uniq c)
  | .pow a c => .pow (readBackBounds hs uniq a) (readBackBounds hs uniq c)
  | .cmp op a c => .cmp op (readBackBounds hs uniq a) (readBackBounds hs uniq c)
  | .land a c => .land (readBackBounds hs uniq a) (readBackBounds hs uniq c)
  | .lor a c => .lor (readBackBounds hs uniq a) (readBackBounds hs uniq c)
  | .lnot a => .lnot (readBackBounds hs uniq a)
  | .ite c t e => .ite (readBackBounds hs uniq c) (readBackBounds hs uniq t) (readBackBounds hs uniq e)
  | .cast dt a => .cast dt (readBackBounds hs uniq a)
  | e => e

/-- draw the unique names of the reduction variables -/
def uniqNames (rvars : List RVar) : List String → St → Res (List (String × String) × St)
  | [], st => .ok ([], st)
  | v :: vs, st =>
    match rvars.find? (·.name == v) with
    | none => .unmodelled "reduction descriptor without a reduction"
    | some rv =>
      (st.var ("_pt_" ++ rv.op ++ v)).bind fun r =>
        (uniqNames rvars vs r.2).bind fun rs => .ok ((v, r.1) :: rs.1, rs.2)

def recAll (rec : Nat → St → Res (Impl × St)) : List (String × Nat) → St → Res (List (String × Impl) × St)
  | [], st => .ok ([], st)
  | (n, c) :: r, st =>
    (rec c st).bind fun x => (recAll rec r x.2).bind fun xs => .ok ((n, x.1) :: xs.1, xs.2)

/-- an index lambda that is not stored: `InlinedResult(loopy_expr, …, depends_on)` -/
def ilInline (e : SExpr) (uniq : List (String × String)) (ns : List (String × Impl)) (boundDeps : List String)
    (i : Nat) (st : St) : Res (Impl × St) :=
  let e' := renameRed uniq e
  match gen ns [] e' with
  | none => .unmodelled "expression refers to an unknown name"
  | some le =>
    let r := Impl.inlined le (boundDeps ++ genDeps ns [] e')
    .ok (r, st.remember i r)

/-- the instructions of a stored index lambda: the bound temporaries (statements of their own for a
    0-d result, lets of the store otherwise) and the store -/
def emitStored (hs : List Hoisted) (boundDeps : List String) (id name : String) (inames : List String)
    (shape : Shape) (rhs : SExpr) (deps : List String) (st : St) : St :=
  if shape.length == 0 then
    let st := hs.foldl (fun st h =>
      st.emit { id := h.id, lhs := h.temp, lhsIdx := [], loops := [], lets := [], rhs := h.e,
                deps := normDeps boundDeps }) st
    st.emit (storeStmt id name inames shape [] rhs deps)
  else
    let lets := sortLets (hs.map fun h => (h.temp, substIdx (inameVars inames) h.e))
    let letIds := hs.map (·.id)
    st.emit (storeStmt id name inames shape lets rhs (deps.filter fun d => !letIds.contains d))

/-- an index lambda that is stored (`ImplStored`, or a reduction bound that is not quasi-affine) -/
def ilStore (shape : Shape) (e : SExpr) (tag : NameTag) (rvars : List RVar) (uniq : List (String × String))
    (ns : List (String × Impl)) (boundDeps : List String) (i : Nat) (st : St) : Res (Impl × St) :=
  (tempName st tag).bind fun nm =>
  (nm.2.vars (dimNames nm.1 shape.length)).bind fun ins =>
  let name := nm.1
  let inames := ins.1
  (hoistBounds ns uniq e (isEmptyShape shape) rvars ins.2).bind fun hb =>
  let hs := hb.1
  -- a generated name (unique reduction iname, bound temporary) that is also a name of the
  -- expression (a binding, a reduction variable) would capture it: outside the model
  if uniq.any (fun p => (rvars.map (·.name)).contains p.2 || (lookupNs ns p.2).isSome) ||
      hs.any (fun h => (lookupNs ns h.temp).isSome) then
    .unmodelled "a generated name is also a name of the expression"
  else
  let ns' := ns ++ hs.map fun h => (h.temp, Impl.stored h.temp [h.id])
  let e' := renameRed uniq (replaceBounds hb.2.1 e)
  match gen ns' [] e' with
  | none => .unmodelled "expression refers to an unknown name"
  | some le =>
    let deps := boundDeps ++ genDeps ns' [] e'
    (hb.2.2.insnId (name ++ "_store")).bind fun idr =>
    let rhs := readBackBounds hs uniq (substIdx (inameVars inames) le)
    let r := Impl.stored name [idr.1]
    .ok (r, (emitStored hs boundDeps idr.1 name inames shape rhs deps idr.2).remember i r)

/-- `CodeGenMapper.rec` on node `i` (fuel-indexed) -/
def mapNode (g : LGraph) : Nat → Nat → St → Res (Impl × St)
  | 0, _, _ => .unmodelled "out of fuel"
  | fuel + 1, i, st =>
    match lookupResult st.results i with
    | some r => .ok (r, st)
    | none =>
      match g.get i with
      | .input name _ =>
        let r := Impl.stored name []
        .ok (r, st.remember i r)
      | .refused w => .refuse w
      | .other w => .unmodelled w
      | .indexLambda shape e binds impl tag uniqOrder rvars =>
        (uniqNames rvars uniqOrder st).bind fun un =>
        (recAll (mapNode g fuel) binds un.2).bind fun nsr =>
        let uniq := un.1
        let ns := nsr.1
        let boundDeps := rvars.flatMap fun rv =>
          match boundsOf rv.name e with
          | some (lo, hi) => genDeps ns [] lo ++ genDeps ns [] hi
          | none => []
        let store := (match impl with | .stored => true | _ => false) ||
          rvars.any fun rv => !rv.loAffine || !rv.hiAffine
        match impl with
        | .unknown s => .refuse ("NotImplementedError(Implementation strategy: " ++ s ++ ")")
        | _ =>
          if store then ilStore shape e tag rvars uniq ns boundDeps i nsr.2
          else ilInline e uniq ns boundDeps i nsr.2

/-- the declared shape of a node -/
def shapeOf (g : LGraph) (i : Nat) : Shape :=
  match g.get i with
  | .input _ s => s
  | .indexLambda s _ _ _ _ _ _ => s
  | _ => []

/-- the loop of `generate_loopy` over the outputs in compute order -/
def storeOutputs (g : LGraph) (fuel : Nat) : List (String × Nat) → St → Res St
  | [], st => .ok st
  | (name, i) :: rest, st =>
    (mapNode g fuel i st).bind fun r =>
    let shape := shapeOf g i
    (r.2.vars (dimNames name shape.length)).bind fun ins =>
    (ins.2.insnId (name ++ "_store")).bind fun idr =>
    let rhs := r.1.toExpr (inameVars ins.1)
    let st := idr.2.emit (storeStmt idr.1 name ins.1 shape [] rhs r.1.deps)
    storeOutputs g fuel rest (st.remember i (.stored name [idr.1]))

/-- `generate_loopy` after preprocessing: `outputs` in compute order; `inputNames` = the names of
    the inputs the generator is seeded with (before the output names) -/
def generate (g : LGraph) (outputs : List (String × Nat)) (inputNames : List String) : Res Kernel :=
  let st0 : St :=
    { vng := { existing := outputs.map (·.1) ++ inputNames, counters := [] },
      ing := { existing := [], counters := [] }, results := [], stmts := [] }
  (storeOutputs g g.size outputs st0).bind fun st => .ok st.stmts.reverse

end LG
end Pt

/-
  PtModel.Affine — affine shape expressions over size parameters and the
  decisions pytato takes about them (`pytato/utils.py`:
  `are_shape_components_equal`, `_is_non_negative`): the difference is brought
  to an affine normal form (ISL does this in the real code) and tested for
  "constant zero" / "non-negative for all non-negative parameters".
-/
namespace Pt

/-- affine expressions as pytato builds them for shape components -/
inductive AExpr where
  | lit (n : Int)
  | param (x : String)
  | add (a b : AExpr)
  | sub (a b : AExpr)
  | scale (k : Int) (a : AExpr)     -- multiplication by an integer literal
deriving Repr, Inhabited

def AExpr.eval (v : String → Nat) : AExpr → Int
  | .lit n => n
  | .param x => (v x : Int)
  | .add a b => a.eval v + b.eval v
  | .sub a b => a.eval v - b.eval v
  | .scale k a => k * a.eval v

/-- affine normal form: constant + one coefficient per parameter name -/
structure Aff where
  const : Int
  coeffs : List (String × Int)
deriving Repr, DecidableEq, Inhabited

def sumCoeffs (v : String → Nat) : List (String × Int) → Int
  | [] => 0
  | (x, c) :: rest => c * (v x : Int) + sumCoeffs v rest

def Aff.eval (a : Aff) (v : String → Nat) : Int := a.const + sumCoeffs v a.coeffs

/-- add `c * x` to a coefficient list, merging with an existing entry for `x` -/
def addTerm (x : String) (c : Int) : List (String × Int) → List (String × Int)
  | [] => [(x, c)]
  | (y, d) :: rest => if y = x then (y, d + c) :: rest else (y, d) :: addTerm x c rest

def addTerms (a : List (String × Int)) : List (String × Int) → List (String × Int)
  | [] => a
  | (x, c) :: rest => addTerms (addTerm x c a) rest

def Aff.add (a b : Aff) : Aff := ⟨a.const + b.const, addTerms a.coeffs b.coeffs⟩
def Aff.scale (k : Int) (a : Aff) : Aff := ⟨k * a.const, a.coeffs.map fun (x, c) => (x, k * c)⟩

def AExpr.norm : AExpr → Aff
  | .lit n => ⟨n, []⟩
  | .param x => ⟨0, [(x, 1)]⟩
  | .add a b => (a.norm).add (b.norm)
  | .sub a b => (a.norm).add ((b.norm).scale (-1))
  | .scale k a => (a.norm).scale k

/-- "is the constant zero" (`aff.is_cst() and aff.get_constant_val().is_zero()`) -/
def Aff.isZero (a : Aff) : Bool := a.const == 0 && a.coeffs.all fun p => p.2 == 0

/-- `are_shape_components_equal(d1, d2)` -/
def affEq (d1 d2 : AExpr) : Bool := ((AExpr.sub d1 d2).norm).isZero

/-- `_is_non_negative`: the set `{p ≥ 0}` is contained in `{p | aff(p) ≥ 0}` -/
def Aff.nonNeg (a : Aff) : Bool := decide (0 ≤ a.const) && a.coeffs.all fun p => decide (0 ≤ p.2)

def isNonNeg (d : AExpr) : Bool := d.norm.nonNeg

end Pt

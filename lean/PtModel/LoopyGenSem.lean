/-
  PtModel.LoopyGenSem — what the graphs of `PtModel.LoopyGen` MEAN, and the side conditions of the
  soundness theorems (`PtProofs.C01Gen`):
  * `den`: a placeholder denotes the array bound to its name, an index lambda `evalIL` of its
    expression over what its bindings denote (the `eval` semantics of C19 / C02);
  * `Safe`: every subscript an evaluation actually reaches (the selected branch of a conditional
    only) has non-negative INTEGER indices within the bounds of the array, and a bare name stands
    for a 0-d array — the memory-safety property of C11, here a hypothesis: an inlined producer is
    evaluated at the subscript without a bounds test, the index lambda's semantics tests;
  * `exprOK`: the expression-level fragment (decidable).
-/
import PtModel.LoopyGen
namespace Pt
namespace LG

def kidsOf (g : LGraph) (i : Nat) : List Nat :=
  match g.get i with
  | .indexLambda _ _ binds _ _ _ _ => binds.map (·.2)
  | _ => []

/-- children strictly below parents -/
def WFG (g : LGraph) : Prop := ∀ i, ∀ c ∈ kidsOf g i, c < i

def wfG (g : LGraph) : Bool := (List.range g.size).all fun i => (kidsOf g i).all fun c => decide (c < i)

/-- `inp`: the arrays of the inputs, by name -/
def denote (g : LGraph) (inp : String → Arr Val) : Nat → Nat → Arr Val
  | 0, _ => ⟨[], fun _ => .undef⟩
  | fuel + 1, i =>
    match g.get i with
    | .input name _ => inp name
    | .indexLambda shape e binds _ _ _ _ =>
      evalIL e shape (binds.map fun b => (b.1, denote g inp fuel b.2))
    | _ => ⟨[], fun _ => .undef⟩

/-- the array node `i` denotes -/
def den (g : LGraph) (inp : String → Arr Val) (i : Nat) : Arr Val := denote g inp (i + 1) i

/-- a natural multi-index as index VALUES: integers, not Booleans or rationals -/
def idxVals (j : Idx) : List Val := j.map fun (n : Nat) => Val.i (n : Int)

mutual
def Safe (env : Env) : SExpr → Prop
  | .int _ | .bool _ | .rat _ _ | .nan | .idx _ => True
  | .var x => env.lookupIx x ≠ none ∨ ∃ a, env.lookupArr x = some a ∧ a.shape = []
  | .sub a ix =>
    SafeList env ix ∧
    ∃ arr j, env.lookupArr a = some arr ∧ evalList env ix = idxVals j ∧ inB arr.shape j = true
  | .add a c | .mul a c | .quot a c | .fdiv a c | .rem a c | .pow a c | .cmp _ a c | .land a c | .lor a c =>
    Safe env a ∧ Safe env c
  | .lnot a | .cast _ a => Safe env a
  | .ite c t e =>
    Safe env c ∧ ((eval env c).truthy? = some true → Safe env t) ∧
      ((eval env c).truthy? = some false → Safe env e)
  | .reduce _ v lo hi body =>
    Safe env lo ∧ Safe env hi ∧
      ∀ l h, (eval env lo).toInt? = some l → (eval env hi).toInt? = some h →
        ∀ k : Nat, k < (h - l).toNat → Safe (env.bind v (l + (k : Int))) body
  | .call f args => f = "pytato.zero" ∨ SafeList env args
def SafeList (env : Env) : List SExpr → Prop
  | [] => True
  | e :: es => Safe env e ∧ SafeList env es
end

mutual
/-- the expression fragment of the partial theorem: no Boolean constant (it is generated as its
    integer value, which the exact value domain keeps apart), no reduction, every `_k` below the
    rank -/
def exprOK (ndim : Nat) : SExpr → Bool
  | .int _ | .rat _ _ | .nan | .var _ => true
  | .bool _ => false
  | .idx k => decide (k < ndim)
  | .sub _ ix => exprOKList ndim ix
  | .add a c | .mul a c | .quot a c | .fdiv a c | .rem a c | .pow a c | .cmp _ a c | .land a c | .lor a c =>
    exprOK ndim a && exprOK ndim c
  | .lnot a | .cast _ a => exprOK ndim a
  | .ite c t e => exprOK ndim c && exprOK ndim t && exprOK ndim e
  | .reduce .. => false
  | .call _ args => exprOKList ndim args
def exprOKList (ndim : Nat) : List SExpr → Bool
  | [] => true
  | e :: es => exprOK ndim e && exprOKList ndim es
end

mutual
/-- every subscript has as many indices as its binding has axes; a bare name is a 0-d binding -/
def ranksOK (rk : String → Option Nat) : SExpr → Bool
  | .int _ | .bool _ | .rat _ _ | .nan | .idx _ => true
  | .var x => rk x == some 0
  | .sub a ix => (rk a == some ix.length) && ranksOKList rk ix
  | .add a c | .mul a c | .quot a c | .fdiv a c | .rem a c | .pow a c | .cmp _ a c | .land a c | .lor a c =>
    ranksOK rk a && ranksOK rk c
  | .lnot a | .cast _ a => ranksOK rk a
  | .ite c t e => ranksOK rk c && ranksOK rk t && ranksOK rk e
  | .reduce _ _ lo hi body => ranksOK rk lo && ranksOK rk hi && ranksOK rk body
  | .call f args => f == "pytato.zero" || ranksOKList rk args
def ranksOKList (rk : String → Option Nat) : List SExpr → Bool
  | [] => true
  | e :: es => ranksOK rk e && ranksOKList rk es
end

/-! ## the fragment of the partial soundness theorem (decidable; evaluated by the driver) -/

/-- rank of the binding `x` of an index lambda, from the declared shape of the child -/
def rankIn (g : LGraph) (binds : List (String × Nat)) (x : String) : Option Nat :=
  (binds.find? (·.1 == x)).map fun b => (shapeOf g b.2).length

/-- node `i` is in the fragment: no empty axis; for an index lambda no reduction, an expression
    of the fragment whose subscripts have the ranks of the bindings, a known implementation
    strategy -/
def suppNode (g : LGraph) (i : Nat) : Bool :=
  match g.get i with
  | .input _ shape => !isEmptyShape shape
  | .indexLambda shape e binds impl _ uo rvars =>
    !isEmptyShape shape && uo.isEmpty && rvars.isEmpty && exprOK shape.length e &&
      ranksOK (rankIn g binds) e && (match impl with | .unknown _ => false | _ => true)
  | _ => false

/-- every node reachable from `i` is in the fragment (fuel-indexed closure) -/
def suppAll (g : LGraph) : Nat → Nat → Bool
  | 0, _ => false
  | fuel + 1, i => suppNode g i && (kidsOf g i).all (suppAll g fuel)

/-- what the driver evaluates: children below parents and every node in the fragment (implies
    `WFG` and `suppAll`, `PtProofs.C01Gen.fragment_check_sound`) -/
def fragmentCheck (g : LGraph) : Bool := wfG g && (List.range g.size).all (suppNode g)

mutual
def hasBool : SExpr → Bool
  | .bool _ => true
  | .int _ | .rat _ _ | .nan | .var _ | .idx _ => false
  | .sub _ ix => hasBoolList ix
  | .add a c | .mul a c | .quot a c | .fdiv a c | .rem a c | .pow a c | .cmp _ a c | .land a c | .lor a c =>
    hasBool a || hasBool c
  | .lnot a | .cast _ a => hasBool a
  | .ite c t e => hasBool c || hasBool t || hasBool e
  | .reduce _ _ lo hi body => hasBool lo || hasBool hi || hasBool body
  | .call _ args => hasBoolList args
def hasBoolList : List SExpr → Bool
  | [] => false
  | e :: es => hasBool e || hasBoolList es
end

/-- why node `i` is outside the fragment (for the driver's report) -/
def whyNot (g : LGraph) (i : Nat) : String :=
  match g.get i with
  | .input _ shape => if isEmptyShape shape then "empty-axis" else "-"
  | .indexLambda shape e binds impl _ uo rvars =>
    if isEmptyShape shape then "empty-axis"
    else if !(uo.isEmpty && rvars.isEmpty) then "reduction"
    else if hasBool e then "boolean-constant"
    else if !exprOK shape.length e then "expression"
    else if !ranksOK (rankIn g binds) e then "subscript-rank"
    else (match impl with | .unknown _ => "implementation-strategy" | _ => "-")
  | .refused _ => "refused"
  | .other w => w

def outsideFragment (g : LGraph) : List String :=
  (((List.range g.size).filter fun j => !suppNode g j).map (whyNot g)).eraseDups

/-! ## the fragment with reductions -/

mutual
/-- `ranksOK` for an expression under the reduction variables `rv`: a bare name is a reduction
    variable or a 0-d binding -/
def ranksOKS (rk : String → Option Nat) (rv : List String) : SExpr → Bool
  | .int _ | .bool _ | .rat _ _ | .nan | .idx _ => true
  | .var x => rv.contains x || rk x == some 0
  | .sub a ix => (rk a == some ix.length) && ranksOKSList rk rv ix
  | .add a c | .mul a c | .quot a c | .fdiv a c | .rem a c | .pow a c | .cmp _ a c | .land a c | .lor a c =>
    ranksOKS rk rv a && ranksOKS rk rv c
  | .lnot a | .cast _ a => ranksOKS rk rv a
  | .ite c t e => ranksOKS rk rv c && ranksOKS rk rv t && ranksOKS rk rv e
  | .reduce _ _ lo hi body => ranksOKS rk rv lo && ranksOKS rk rv hi && ranksOKS rk rv body
  | .call f args => f == "pytato.zero" || ranksOKSList rk rv args
def ranksOKSList (rk : String → Option Nat) (rv : List String) : List SExpr → Bool
  | [] => true
  | e :: es => ranksOKS rk rv e && ranksOKSList rk rv es
end

/-- one level of a chain of reductions: operation, variable, bounds -/
abbrev Level := RedOp × String × SExpr × SExpr

/-- the reductions at the root of an expression (one `Reduce` node over several variables is a
    chain), and what they reduce -/
def splitChain : SExpr → List Level × SExpr
  | .reduce op v lo hi body => ((op, v, lo, hi) :: (splitChain body).1, (splitChain body).2)
  | e => ([], e)

def mkChain : List Level → SExpr → SExpr
  | [], b => b
  | (op, v, lo, hi) :: r, b => .reduce op v lo hi (mkChain r b)

def isIntLit : SExpr → Bool
  | .int _ => true
  | _ => false

/-- node `i` is a REDUCTION of the fragment: a chain of reductions at the root of the expression,
    over a reduction-free expression of the fragment; the bounds are reduction-free expressions of
    the fragment over the bindings (constants; for a CSR product, entries of the row pointer); the variables are
    distinct, are not names of bindings, and are listed in the chain's order by both descriptors;
    every bound is hoisted (what `is_quasi_affine` of the installed loopy makes of every bound) -/
def redNode (g : LGraph) (i : Nat) : Bool :=
  match g.get i with
  | .indexLambda shape e binds impl _ uo rvars =>
    let ch := (splitChain e).1
    let body := (splitChain e).2
    let vars := ch.map (·.2.1)
    !isEmptyShape shape && !ch.isEmpty &&
      ch.all (fun c => exprOK shape.length c.2.2.1 && ranksOK (rankIn g binds) c.2.2.1 &&
        exprOK shape.length c.2.2.2 && ranksOK (rankIn g binds) c.2.2.2) &&
      decide vars.Nodup && vars.all (fun v => !(binds.map (·.1)).contains v) &&
      (uo == vars) && (rvars.map (·.name) == vars) &&
      rvars.all (fun rv => !rv.loAffine && !rv.hiAffine) &&
      exprOK shape.length body && ranksOKS (rankIn g binds) vars body &&
      (match impl with | .unknown _ => false | _ => true)
  | _ => false

def suppNodeR (g : LGraph) (i : Nat) : Bool := suppNode g i || redNode g i

def suppAllR (g : LGraph) : Nat → Nat → Bool
  | 0, _ => false
  | fuel + 1, i => suppNodeR g i && (kidsOf g i).all (suppAllR g fuel)

def fragmentCheckR (g : LGraph) : Bool := wfG g && (List.range g.size).all (suppNodeR g)

/-- why node `i` is outside the fragment with reductions (for the driver's report) -/
def whyNotR (g : LGraph) (i : Nat) : String :=
  match g.get i with
  | .indexLambda shape e binds _ _ uo rvars =>
    if uo.isEmpty && rvars.isEmpty then whyNot g i
    else if isEmptyShape shape then "empty-axis"
    else if !((splitChain e).1.all fun c => exprOK shape.length c.2.2.1 && ranksOK (rankIn g binds) c.2.2.1 &&
        exprOK shape.length c.2.2.2 && ranksOK (rankIn g binds) c.2.2.2) then
      (if (splitChain e).1.any (fun c => hasBool c.2.2.1 || hasBool c.2.2.2) then "boolean-constant"
       else "reduction-bounds")
    else if hasBool (splitChain e).2 then "boolean-constant"
    else "reduction-other"
  | _ => whyNot g i

def outsideFragmentR (g : LGraph) : List String :=
  (((List.range g.size).filter fun j => !suppNodeR g j).map (whyNotR g)).eraseDups

/-- extent of a statement's loop box (constant upper bounds) -/
def extent (s : KStmt) : Shape :=
  s.loops.map fun l => match l.2.2 with | .int n => n.toNat | _ => 0

end LG
end Pt

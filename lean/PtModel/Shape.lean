/-
  PtModel.Shape — model of pytato's shape inference for broadcasting
  (`pytato/utils.py: get_shape_after_broadcasting`) next to NumPy's rule.
-/
import PtModel.Basic
namespace Pt

/-- `_get_result_axis_length` folded over the operands' lengths of one axis:
    start with the first; a later length equal to the current one or equal to 1
    is absorbed; a current length of 1 is replaced; anything else is an error. -/
def ptAxisLen : Nat → List Nat → Option Nat
  | cur, [] => some cur
  | cur, n :: rest =>
    if n = cur ∨ n = 1 then ptAxisLen cur rest
    else if cur = 1 then ptAxisLen n rest
    else none

/-- left-pad a shape with 1s to rank `r` -/
def padShape (r : Nat) (s : Shape) : Shape := List.replicate (r - s.length) 1 ++ s

/-- result length of one axis from all operands' lengths -/
def ptAxis : List Nat → Option Nat
  | [] => some 1
  | d :: ds => ptAxisLen d ds

/-- `get_shape_after_broadcasting(shapes)` -/
def ptBroadcast (shapes : List Shape) : Option Shape :=
  let r := (shapes.map List.length).foldl max 0
  let padded := shapes.map (padShape r)
  (List.range r).mapM fun i => ptAxis (padded.map (·.getD i 1))

/-- NumPy: the lengths of one axis are compatible iff all lengths different from
    1 are equal; the result is that common length (or 1). -/
def npAxisLen (ls : List Nat) : Option Nat :=
  match ls.filter (· ≠ 1) with
  | [] => some 1
  | d :: ds => if ds.all (· == d) then some d else none

def npBroadcast (shapes : List Shape) : Option Shape :=
  let r := (shapes.map List.length).foldl max 0
  let padded := shapes.map (padShape r)
  (List.range r).mapM fun i => npAxisLen (padded.map (·.getD i 1))

end Pt

/-
  PtModel.Basic — shapes, multi-indices, C / Fortran linearisation, Python's
  floor division and modulo.  Mathlib-free and executable: the same definitions
  are run by `ptdriver` in the correspondence checks and reasoned about in
  `PtProofs`.
-/
namespace Pt

abbrev Shape := List Nat
abbrev Idx := List Nat

/-- number of elements of an array of the given shape -/
def prod : Shape → Nat
  | [] => 1
  | d :: ds => d * prod ds

/-- `i` is a valid multi-index into an array of shape `s` (boolean, executable). -/
def inB : Shape → Idx → Bool
  | [], [] => true
  | d :: ds, i :: is => decide (i < d) && inB ds is
  | _, _ => false

/-- C-order (row-major) linearisation: last axis fastest. -/
def ravelC : Shape → Idx → Nat
  | [], _ => 0
  | _ :: _, [] => 0
  | _ :: ds, i :: is => i * prod ds + ravelC ds is

/-- inverse of `ravelC` (numpy.unravel_index, order="C"). -/
def unravelC : Shape → Nat → Idx
  | [], _ => []
  | _ :: ds, k => (k / prod ds) :: unravelC ds (k % prod ds)

/-- Fortran-order (column-major) linearisation: first axis fastest. -/
def ravelF : Shape → Idx → Nat
  | [], _ => 0
  | _ :: _, [] => 0
  | d :: ds, i :: is => i + d * ravelF ds is

/-- inverse of `ravelF` (numpy.unravel_index, order="F"). -/
def unravelF : Shape → Nat → Idx
  | [], _ => []
  | d :: ds, k => (k % d) :: unravelF ds (k / d)

/-- all valid multi-indices of a shape, in C order -/
def allIdx : Shape → List Idx
  | [] => [[]]
  | d :: ds => (List.range d).flatMap fun i => (allIdx ds).map (i :: ·)

/-- Python's `%` on integers (result has the sign of the divisor). -/
def pyMod (a b : Int) : Int := Int.fmod a b
/-- Python's `//` on integers (floor division). -/
def pyDiv (a b : Int) : Int := Int.fdiv a b

/-- An array: a shape and a total lookup function (values outside the shape are
    irrelevant; `Arr.Eqv` ignores them). -/
structure Arr (α : Type) where
  shape : Shape
  get : Idx → α

/-- flat (C-order) view of the in-bounds values of an array -/
def Arr.toList {α} (a : Arr α) : List α := (allIdx a.shape).map a.get

/-- build an array from C-order flat data; `dflt` outside the data -/
def Arr.ofList {α} (s : Shape) (xs : List α) (dflt : α) : Arr α :=
  ⟨s, fun i => if inB s i then xs.getD (ravelC s i) dflt else dflt⟩

end Pt

/-
  ptdriver queries of the `eq` family: `(eq <query> args…)`.
  `none` = unparsable query.
-/
import PtModel.Sexp
namespace Pt

def handleEq : List Sx → Option String
  | _ => none

end Pt

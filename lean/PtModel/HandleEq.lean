/-
  ptdriver queries of the `eq` family: `(eq <query> args…)`.
  `none` = unparsable query.

  Wire formats
    TBL   ((Kind (field …)) …)
    HEAP  ((Kind ((field "value") …) ((field (child …)) …)) …)     node i = i-th entry
  Queries
    (eq cmp (TBL …) HEAP i j)   per table four bits: eqStruct on the tree unfoldings,
                                 semEqB (equal projections), equal `enc`, eqMemo (same heap);
                                 answer "<wf> <bits> <bits> …"
    (eq echo HEAP)               the parsed heap, re-serialised
    (eq size HEAP i)             number of nodes of the tree unfolding of node i
    (eq work TBL HEAP i j)       number of pair comparisons `eqMemo` performed
-/
import PtModel.Sexp
import PtModel.Eq
namespace Pt
open Pt.EqM

namespace EqWire

def parseTbl (x : Sx) : Option (List (String × List String)) := do
  let rows ← x.asList?
  rows.mapM fun
    | .list [.atom k, .list fs] => do
      let fs ← fs.mapM Sx.asAtom?
      some (k, fs)
    | _ => none

def parseAttr : Sx → Option (String × String)
  | .list [.atom f, .atom v] => some (f, v)
  | _ => none

def parseKid : Sx → Option (String × List Nat)
  | .list [.atom f, cs] => do some (f, ← cs.asNats?)
  | _ => none

def parseNode : Sx → Option HNode
  | .list [.atom k, .list as, .list cs] => do
    some { kind := k, attrs := ← as.mapM parseAttr, kids := ← cs.mapM parseKid }
  | _ => none

def parseHeap (x : Sx) : Option Heap := do
  let ns ← x.asList?
  ns.mapM parseNode

def showNode (n : HNode) : String :=
  let as := " ".intercalate (n.attrs.map fun (f, v) => s!"({f} \"{v}\")")
  let cs := " ".intercalate (n.kids.map fun (f, cs) =>
    s!"({f} ({" ".intercalate (cs.map toString)}))")
  s!"({n.kind} ({as}) ({cs}))"

def showHeap (h : Heap) : String := "(" ++ " ".intercalate (h.map showNode) ++ ")"

def bit (b : Bool) : String := if b then "1" else "0"

end EqWire

open EqWire in
def handleEq : List Sx → Option String
  | [.atom "cmp", .list tbls, heap, i, j] => do
    let ts ← tbls.mapM parseTbl
    let h ← parseHeap heap
    let i ← i.asNat?
    let j ← j.asNat?
    if i ≥ h.length || j ≥ h.length then none else
    let a := unfold h i
    let b := unfold h j
    let cols := ts.map fun t =>
      let tb := tblOf t
      bit (eqStruct tb a b) ++ bit (semEqB tb a b) ++ bit (enc tb a == enc tb b)
        ++ bit (eqMemo tb true h h i j)
    some (" ".intercalate ((if h.wfB then "#t" else "#f") :: cols))
  | [.atom "echo", heap] => do
    let h ← parseHeap heap
    some (showHeap h)
  | [.atom "size", heap, i] => do
    let h ← parseHeap heap
    let i ← i.asNat?
    some (toString (unfold h i).size)
  | [.atom "work", tbl, heap, i, j] => do
    let t ← parseTbl tbl
    let h ← parseHeap heap
    some (toString (eqMemoWork (tblOf t) true h h (← i.asNat?) (← j.asNat?)))
  | _ => none

end Pt

/-
  PtModel.AdvIndex — model of `map_contiguous_advanced_index` and
  `map_non_contiguous_advanced_index` (`pytato/transform/lower_to_index_lambda.py`)
  and NumPy's advanced indexing.

  Per axis of the indexed array an index is an integer, a (normalised) slice, or
  an integer index ARRAY; integers and arrays are the "advanced" indices, their
  shapes (`()` for an integer) broadcast to `B`.  Output axes: every slice
  contributes one axis, in order; the axes of `B` are inserted after the last
  advanced index (contiguous node: no slice strictly between two advanced
  indices) or put first (non-contiguous node).
  The expression: `in[e_0, …]` with `e_p = k % n_p` (a literal) for an integer,
  `_c` / `start + step*_c` for a slice feeding output axis `c`, and
  `in_j[broadcast subscript] % n_p` for the j-th index array (no `% n_p` if the
  array is tagged `AssumeNonNegative`); the broadcast subscript addresses the
  axes of `B` at their position in the output.  Names: `UniqueNameGenerator`
  based on "in": `in`, `in_0`, `in_1`, ….
-/
import PtModel.Scalar
import PtModel.Slice
import PtModel.Spec
import PtModel.Lower
import PtModel.Names
import PtModel.Raise
namespace Pt

/-- an index as the lowering sees it (`node.indices`) -/
inductive NAIdx where
  | int (k : Int)
  | slice (s : NSlice)
  | arr (shape : Shape) (nonneg : Bool)
deriving Repr

/-- an index as the user wrote it, with the index arrays' values -/
inductive RAIdx where
  | int (k : Int)
  | slice (start stop : Option Int) (step : Int)
  | arr (a : Arr Val) (nonneg : Bool)

namespace Lower

def NAIdx.isAdv : NAIdx → Bool
  | .slice _ => false
  | _ => true

/-- shapes of the advanced indices (`()` for an integer) -/
def advShapes : List NAIdx → List Shape
  | [] => []
  | .int _ :: ixs => [] :: advShapes ixs
  | .slice _ :: ixs => advShapes ixs
  | .arr s _ :: ixs => s :: advShapes ixs

/-- positions of the advanced indices -/
def advPositions (ixs : List NAIdx) : List Nat :=
  (List.range ixs.length).filter fun p => match ixs[p]? with | some ix => NAIdx.isAdv ix | none => false

def sliceIx (s : NSlice) (n : Nat) (c : Nat) : SExpr :=
  if s.stop = n ∧ s.step = 1 ∧ s.start = 0 then ivar c
  else .add (.int s.start) (.mul (.int s.step) (ivar c))

def arrIx (nm : String) (sh ref : Shape) (nonneg : Bool) (n : Nat) : SExpr :=
  if nonneg then .sub nm (bcastSubscript sh ref)
  else .rem (.sub nm (bcastSubscript sh ref)) (.int n)

/-- the loop over the indices: `p` = position, `c` = `islice_idx`; after the
    position `jump` the counter skips the `blen` axes of the broadcast index shape -/
def advIxFrom (ref : Shape) (jump : Option Nat) (blen : Nat) :
    Nat → Nat → List NAIdx → Shape → List String → List SExpr
  | _, _, [], _, _ => []
  | _, _, _ :: _, [], _ => []
  | p, c, .int k :: ixs, n :: ns, names =>
    .int (pyMod k n) :: advIxFrom ref jump blen (p + 1) (if jump = some p then c + blen else c) ixs ns names
  | p, c, .slice s :: ixs, n :: ns, names =>
    sliceIx s n c ::
      advIxFrom ref jump blen (p + 1) (if jump = some p then c + 1 + blen else c + 1) ixs ns names
  | _, _, .arr _ _ :: _, _ :: _, [] => []
  | p, c, .arr sh nn :: ixs, n :: ns, nm :: names =>
    arrIx nm sh ref nn n ::
      advIxFrom ref jump blen (p + 1) (if jump = some p then c + blen else c) ixs ns names

/-- the rule, given the name of the indexed array's binding, the names of the
    index arrays' bindings, the broadcast index shape and the positions of the
    first / last advanced index -/
def advIndexWith (contig : Bool) (first last : Nat) (in0 : String) (names : List String) (B : Shape)
    (ixs : List NAIdx) (shape : Shape) : SExpr :=
  if contig then
    .sub in0 (advIxFrom (List.replicate first 1 ++ B) (some last) B.length 0 0 ixs shape names)
  else
    .sub in0 (advIxFrom B none B.length 0 B.length ixs shape names)

/-- `vng = UniqueNameGenerator(); vng("in"), vng("in"), …` -/
def advNames (narr : Nat) : Option (List String) :=
  ((NameGen.mk [] []).genMany (List.replicate (narr + 1) "in")).map (·.1)

/-- is the index a contiguous one (`_index_into`)? -/
def advContiguous (ixs : List NAIdx) : Bool :=
  let adv := advPositions ixs
  (List.range ixs.length).all fun p =>
    !(adv.headD 0 < p && p < adv.getLastD 0) || adv.contains p

/-- `map_contiguous_advanced_index` / `map_non_contiguous_advanced_index` -/
def advIndex (contig : Bool) (ixs : List NAIdx) (shape : Shape) : Option SExpr :=
  -- only arrays take names; integers do not
  let narr := (ixs.filter fun ix => match ix with | .arr _ _ => true | _ => false).length
  match Raise.bcastShapes (advShapes ixs), advNames narr with
  | some B, some (in0 :: names) =>
    let adv := advPositions ixs
    some (advIndexWith contig (adv.headD 0) (adv.getLastD 0) in0 names B ixs shape)
  | _, _ => none

/-- `_index_into`: slices are normalised against their axis length -/
def normAIdx : Shape → List RAIdx → List NAIdx
  | _ :: ns, .int k :: ixs => .int k :: normAIdx ns ixs
  | n :: ns, .slice st sp step :: ixs => .slice (ptNormSlice st sp step n) :: normAIdx ns ixs
  | _ :: ns, .arr a nn :: ixs => .arr a.shape nn :: normAIdx ns ixs
  | _, _ => []

/-- the index arrays, in order -/
def arrsOf : List RAIdx → List (Arr Val)
  | [] => []
  | .arr a _ :: ixs => a :: arrsOf ixs
  | _ :: ixs => arrsOf ixs

/-- what the node constructor and NumPy require: one index per axis; integers
    within `[-n, n)`; slice steps non-zero; and — the data-dependent
    precondition — every value of an index array is an integer within `[-n, n)`
    (`[0, n)` if the array is tagged `AssumeNonNegative`) -/
def advValid : List RAIdx → Shape → Prop
  | [], [] => True
  | .int k :: ixs, n :: ns => (-(n : Int) ≤ k ∧ k < n) ∧ advValid ixs ns
  | .slice _ _ step :: ixs, _ :: ns => step ≠ 0 ∧ advValid ixs ns
  | .arr a nn :: ixs, n :: ns =>
    (∀ j, inB a.shape j = true →
      ∃ z : Int, a.get j = .i z ∧ (if nn then 0 ≤ z else -(n : Int) ≤ z) ∧ z < n) ∧ advValid ixs ns
  | _, _ => False

/-- the part of `advValid` that does not depend on the index arrays' VALUES -/
def advValidAffine : List RAIdx → Shape → Prop
  | [], [] => True
  | .int k :: ixs, n :: ns => (-(n : Int) ≤ k ∧ k < n) ∧ advValidAffine ixs ns
  | .slice _ _ step :: ixs, _ :: ns => step ≠ 0 ∧ advValidAffine ixs ns
  | .arr _ _ :: ixs, _ :: ns => advValidAffine ixs ns
  | _, _ => False

/-- the components of an evaluated index vector that come from integers and
    slices are integers within the axis -/
def affinePartsOK : List RAIdx → Shape → List Val → Prop
  | [], [], [] => True
  | .arr _ _ :: ixs, _ :: ns, _ :: vs => affinePartsOK ixs ns vs
  | _ :: ixs, n :: ns, v :: vs => (∃ z : Nat, v = .i z ∧ z < n) ∧ affinePartsOK ixs ns vs
  | _, _, _ => False

end Lower

namespace Spec

/-- NumPy's wrap-around of a (valid) negative index -/
def wrapIdx (v : Val) (n : Nat) : Nat :=
  match v with
  | .i z => (if z < 0 then z + n else z).toNat
  | _ => 0

/-- output axes contributed from position `p` on: one per slice; the broadcast
    index shape `B` after position `jump` -/
def advShapeFrom (jump : Option Nat) (B : Shape) : Nat → List RAIdx → Shape → Shape
  | _, [], _ => []
  | _, _ :: _, [] => []
  | p, .slice st sp step :: ixs, n :: ns =>
    (cpyLen (cpyAdjust st sp step n)).toNat ::
      ((if jump = some p then B else []) ++ advShapeFrom jump B (p + 1) ixs ns)
  | p, _ :: ixs, _ :: ns => (if jump = some p then B else []) ++ advShapeFrom jump B (p + 1) ixs ns

/-- the element of the indexed array that output index `i` reads: `c` = the
    output axis the next slice is fed from, `iref` = the part of `i` up to and
    including the axes of `B` -/
def advSrcFrom (i iref : Idx) (jump : Option Nat) (blen : Nat) : Nat → Nat → List RAIdx → Shape → Idx
  | _, _, [], _ => []
  | _, _, _ :: _, [] => []
  | p, c, .int k :: ixs, n :: ns =>
    (if k < 0 then k + n else k).toNat ::
      advSrcFrom i iref jump blen (p + 1) (if jump = some p then c + blen else c) ixs ns
  | p, c, .slice st sp step :: ixs, n :: ns =>
    ((cpyAdjust st sp step n).start + step * (i.getD c 0 : Nat)).toNat ::
      advSrcFrom i iref jump blen (p + 1) (if jump = some p then c + 1 + blen else c + 1) ixs ns
  | p, c, .arr a _ :: ixs, n :: ns =>
    wrapIdx (a.get (bcastIdx a.shape iref)) n ::
      advSrcFrom i iref jump blen (p + 1) (if jump = some p then c + blen else c) ixs ns

/-- `a[ix_0, ix_1, …]` with at least one index array (NumPy advanced indexing);
    `B` = the broadcast shape of the advanced indices, `first`/`last` = the
    positions of the first / last advanced index -/
def advIndex (contig : Bool) (B : Shape) (first last : Nat) (ixs : List RAIdx) (a : Arr Val) :
    Arr Val :=
  if contig then
    ⟨advShapeFrom (some last) B 0 ixs a.shape,
     fun i => a.get (advSrcFrom i (i.take (first + B.length)) (some last) B.length 0 0 ixs a.shape)⟩
  else
    ⟨B ++ advShapeFrom none B 0 ixs a.shape,
     fun i => a.get (advSrcFrom i (i.take B.length) none B.length 0 B.length ixs a.shape)⟩

end Spec
end Pt

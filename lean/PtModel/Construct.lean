/-
  PtModel.Construct — model of the array constructors of `pytato/array.py`
  (`full / zeros / ones`, `eye`, `arange`) and of the CSR sparse matrix product
  (`make_csr_matrix(...) @ b`, `map_csr_matmul`).  None of these has an array
  operand that is merely re-indexed: the index lambda is a literal, a comparison
  of the indices, an affine function of `_0`, or a `Reduce` whose BOUNDS are read
  from an array (`row_starts[_0] ≤ _r0 < row_starts[_0 + 1]`).
-/
import PtModel.Scalar
import PtModel.Lower
import PtModel.Raise
import PtModel.Binop
namespace Pt

namespace Lower

/-- truncation toward zero (`np.int64(2.5) = 2`, `np.int64(-2.5) = -2`) -/
def ratTrunc (r : Rat) : Int := if r < 0 then -((-r).floor) else r.floor

def isFloatDtype (dt : String) : Bool := dt.startsWith "float"

/-- `conv_dtype.type(fill_value)` as the literal `pt.full` puts into the index lambda;
    `none`: outside the modelled scope (NaN into a non-float dtype, a non-literal) -/
def fullLit (dt : String) : SExpr → Option SExpr
  | .int n =>
    some (if dt = "bool" then .bool (n != 0) else if isIntDtype dt then .int n else .rat n 1)
  | .bool b =>
    some (if dt = "bool" then .bool b else if isIntDtype dt then .int (if b then 1 else 0)
          else .rat (if b then 1 else 0) 1)
  | .rat p q =>
    if q = 0 then none
    else some (if dt = "bool" then .bool (p != 0)
               else if isIntDtype dt then .int (ratTrunc ((p : Rat) / (q : Rat))) else .rat p q)
  | .nan => if isFloatDtype dt then some .nan else none
  | _ => none

/-- `pt.full(shape, fill, dtype)`: shape and expression (no bindings) -/
def full (shape : Shape) (dt : String) (fill : SExpr) : Option (Shape × SExpr) :=
  (fullLit dt fill).map fun e => (shape, e)

/-- `pt.zeros(shape, dtype) = full(shape, 0, dtype)`, `pt.ones = full(shape, 1, dtype)` -/
def zeros (shape : Shape) (dt : String) := full shape dt (.int 0)
def ones (shape : Shape) (dt : String) := full shape dt (.int 1)

/-- `pt.eye(N, M, k)`: `If((_1 - _0) == k, 1, 0)` -/
def eyeExpr (k : Int) : SExpr :=
  .ite (.cmp .eq (.add (ivar 1) (.mul (.int (-1)) (ivar 0))) (.int k)) (.int 1) (.int 0)

def eye (n m : Nat) (k : Int) : Shape × SExpr := ([n, m], eyeExpr k)

/-- `max(0, ceil((stop - start) / step))` -/
def arangeLen (start stop step : Rat) : Nat := (((stop - start) / step).ceil).toNat

/-- the literal for `dtype.type(x)`: an integer for an integer dtype, else the float -/
def numLit (isInt : Bool) (r : Rat) : SExpr := if isInt then .int r.num else .rat r.num r.den

/-- `pt.arange(start, stop, step, dtype)`: `start + _0 * step`; `none`: `step = 0`
    (the real code raises) or non-integral arguments to an integer dtype (not modelled) -/
def arange (isInt : Bool) (start stop step : Rat) : Option (Shape × SExpr) :=
  if step = 0 then none
  else if isInt ∧ ¬ (start.den = 1 ∧ stop.den = 1 ∧ step.den = 1) then none
  else some ([arangeLen start stop step],
             .add (numLit isInt start) (.mul (ivar 0) (numLit isInt step)))

/-- `map_csr_matmul`: bindings `_in0 = elem_values`, `_in1 = elem_col_indices`,
    `_in2 = row_starts`, `_in3 = b` (rank `brank`) -/
def csrExpr (brank : Nat) : SExpr :=
  .reduce .sum "_r0" (.sub "_in2" [ivar 0]) (.sub "_in2" [.add (ivar 0) (.int 1)])
    (.mul (.sub "_in0" [.var "_r0"])
          (.sub "_in3" (.sub "_in1" [.var "_r0"] :: (List.range (brank - 1)).map fun d => ivar (d + 1))))

/-- `make_csr_matrix((nrows, ncols), ev, ec, rs) @ b` with the shape checks of
    `make_csr_matrix` and `sparse_matmul` -/
def csrMatmul (nrows ncols : Nat) (evS ecS rsS bS : Shape) : Option (Shape × SExpr) :=
  if evS.length = 1 ∧ ecS = evS ∧ rsS = [nrows + 1] ∧ bS.head? = some ncols then
    some (nrows :: bS.tail, csrExpr bS.length)
  else none

end Lower

namespace Spec

/-- `numpy.full(shape, fill, dtype)`: every entry is the fill value converted to the dtype -/
def fullV (shape : Shape) (dt : String) (fill : SExpr) : Arr Val :=
  ⟨shape, fun _ => Val.cast dt (Raise.litVal fill)⟩

/-- `numpy.eye(N, M, k)`: ones exactly where `column - row = k` -/
def eyeV (n m : Nat) (k : Int) : Arr Val :=
  ⟨[n, m], fun i => if ((i.getD 1 0 : Nat) : Int) - ((i.getD 0 0 : Nat) : Int) = k then .i 1 else .i 0⟩

/-- `numpy.arange(start, stop, step)`: the points `start + j·step` -/
def arangeV (isInt : Bool) (start stop step : Rat) : Arr Val :=
  ⟨[Lower.arangeLen start stop step], fun i =>
    let j : Nat := i.getD 0 0
    if isInt then .i (start.num + j * step.num) else .q (start + j * step)⟩

/-- the dense matrix a CSR triple denotes: entry `(r, c)` is the sum of the
    stored values of row `r` (positions `row_starts[r] ≤ p < row_starts[r+1]`)
    whose column index is `c` (duplicates add up, as in SciPy) -/
def csrDense (nrows ncols : Nat) (ev ec rs : Arr Val) : Arr Val :=
  ⟨[nrows, ncols], fun i =>
    let r := i.getD 0 0
    let c := i.getD 1 0
    match (rs.get [r]).toInt?, (rs.get [r + 1]).toInt? with
    | some lo, some hi =>
      RedOp.sum.fold ((List.range (hi - lo).toNat).map fun (k : Nat) =>
        let p := (lo + (k : Int)).toNat
        if (ec.get [p]).toInt? = some (c : Int) then ev.get [p] else .i 0)
    | _, _ => .undef⟩

/-- `dense @ b` (`numpy.tensordot(dense, b, axes=(1, 0))`) -/
def csrMatmulV (nrows ncols : Nat) (ev ec rs b : Arr Val) : Arr Val :=
  ⟨nrows :: b.shape.tail, fun i =>
    RedOp.sum.fold ((List.range ncols).map fun j =>
      Val.mul ((csrDense nrows ncols ev ec rs).get [i.getD 0 0, j]) (b.get (j :: i.tail)))⟩

end Spec
end Pt

/-
  PtModel.Analysis — the graph analyses of `pytato.analysis` / `pytato.transform`
  over the heap of `PtModel.Mapper` (no Mathlib).

  Every analysis is a cached walk (`visitLog`, one invocation per distinct node)
  plus what the per-node method records.  Which edges an implementation follows
  (`walk`) and which it reports (`tbl`) are parameters `kind → label → Bool`; the
  real classes' tables are regenerated into `PtGen.Children` on every run.
-/
import PtModel.Mapper
namespace Pt

/-- direct predecessors of `v` (with multiplicity, field order): what
    `ListOfDirectPredecessorsGetter` returns under the edge table `tbl` -/
def preds (tbl : String → String → Bool) (h : Heap) (v : Nat) : List Nat := kidsFn tbl h v

/-- `ListOfUsersCollector`: a cached walk along `walk`; each visited node `v`
    appends itself to the user list of each of its `tbl`-predecessors, once per
    occurrence.  Users of `u`, with multiplicity. -/
def usersList (walk tbl : String → String → Bool) (h : Heap) (root u : Nat) : List Nat :=
  (visitLog walk h root).flatMap fun v => List.replicate ((preds tbl h v).count u) v

/-- `UsersCollector.node_to_users[u]` (a set) -/
def usersSet (walk tbl : String → String → Bool) (h : Heap) (root u : Nat) : List Nat :=
  (usersList walk tbl h root u).eraseDups

/-- `TopoSortMapper`: nodes in the order their `post_visit` runs, restricted to
    the nodes it records (`Array` instances) -/
def topo (walk : String → String → Bool) (counted : NodeData → Bool) (h : Heap) (root : Nat) :
    List Nat :=
  (visitLog walk h root).filter fun j => counted (h.node j)

/-- `NodeCountMapper(count_duplicates=True)`: visit key `id(expr)` -/
def countNodesDup (walk : String → String → Bool) (counted : NodeData → Bool) (h : Heap)
    (root : Nat) : Nat :=
  ((visitLog walk h root).filter fun j => counted (h.node j)).length

/-- cached walk whose visited-set is keyed by `key` (structural equality):
    a node is skipped when a node with the same key has been visited -/
def dfsK (kids : Nat → List Nat) (key : Nat → Nat) : Nat → Nat → List Nat → List Nat
  | 0, _, vis => vis
  | f+1, i, vis =>
    if key i ∈ vis.map key then vis
    else i :: (kids i).foldl (fun v c => dfsK kids key f c v) vis

/-- `NodeCountMapper(count_duplicates=False)`: visit key `expr` (equality) -/
def countNodesNoDup (walk : String → String → Bool) (counted : NodeData → Bool) (h : Heap)
    (root : Nat) : Nat :=
  ((dfsK (kidsFn walk h) (fun j => (h.node j).cls) (root + 1) root []).filter
    fun j => counted (h.node j)).length

def typeCount (walk : String → String → Bool) (h : Heap) (root : Nat) (kind : String) : Nat :=
  ((visitLog walk h root).filter fun j => (h.node j).kind == kind).length

/-- `TagCountMapper.rec`, with the real code's trick: the value *cached* for a
    node is `0`, the value *returned* from the first visit is
    `[node tagged] + Σ children`; a second path to the node therefore adds 0.
    Returns (count, visited list). -/
def tcVisit (kids : Nat → List Nat) (tagged : Nat → Bool) : Nat → Nat → List Nat → Nat × List Nat
  | 0, _, vis => (0, vis)
  | f+1, i, vis =>
    if i ∈ vis then (0, vis)
    else
      let r := (kids i).foldl
        (fun (acc : Nat × List Nat) c =>
          let q := tcVisit kids tagged f c acc.2
          (acc.1 + q.1, q.2)) (0, vis)
      ((if tagged i then 1 else 0) + r.1, i :: r.2)

def hasTags (want : List String) (nd : NodeData) : Bool := want.all fun t => nd.tags.contains t

def tagCount (walk : String → String → Bool) (counted : NodeData → Bool) (want : List String)
    (h : Heap) (root : Nat) : Nat :=
  (tcVisit (kidsFn walk h) (fun j => counted (h.node j) && hasTags want (h.node j))
    (root + 1) root []).1

/-- the mutant of Appendix C #33 (cache the result instead of 0), kept as an
    executable definition so that the correspondence can show it differs -/
def tcVisitBad (kids : Nat → List Nat) (tagged : Nat → Bool) : Nat → Nat → Memo Nat → Nat × Memo Nat
  | 0, _, memo => (0, memo)
  | f+1, i, memo =>
    if i ∈ memo.keys then ((memo.val? i).getD 0, memo)
    else
      let r := (kids i).foldl
        (fun (acc : Nat × Memo Nat) c =>
          let q := tcVisitBad kids tagged f c acc.2
          (acc.1 + q.1, q.2)) (0, memo)
      let v := (if tagged i then 1 else 0) + r.1
      (v, (i, some v) :: r.2)

/-- outputs of a graph: the entries of a root dictionary, or the root array -/
def outputsOf (h : Heap) (root : Nat) : List Nat :=
  if (h.node root).kind == "DictOfNamedArrays" then (h.edges root).map (·.2) else [root]

/-- `MaterializedNodeCollector`: nodes materialised by their own kind or tags
    (`matNode`), children materialised by how the parent uses them (`matEdge`:
    send payloads, loopy / call bindings), and optionally the outputs. -/
def materialized (walk : String → String → Bool) (matNode : NodeData → Bool)
    (matEdge : String → String → Bool) (h : Heap) (root : Nat) (includeOutputs : Bool) :
    List Nat :=
  let log := visitLog walk h root
  ((log.filter fun j => matNode (h.node j))
    ++ (log.flatMap fun p => kidsFn matEdge h p)
    ++ (if includeOutputs then outputsOf h root else [])).eraseDups

end Pt

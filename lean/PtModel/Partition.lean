/-
  PtModel.Partition — model of `find_distributed_partition` (pytato/distributed/partition.py),
  step by step, on the communication graph / program representation of PtModel.Dist.

  Milestone 1 (this file, first part): steps (c) batches, (d) local parts from batches,
  (f) the communication skeleton of the partition (which send / receive goes into which part,
  grouping of sends by sent array, `needed_pids`).
  Executable, no Mathlib.
-/
import PtModel.Dist
namespace Pt.Dist

/-- Step 2: the rounds of peeling the global communication graph, trailing empty rounds
    included (they produce no parts, see `partsOf`).  For a valid program every communication
    id is a send id. -/
def rawBatches (g : CommGraph) : List (List CommId) :=
  peelB g.sendIds g.deps g.sendIds.length []

/-- One local part before pids are assigned.  `cand` is the index of the batch whose sends the
    part carries (its receives belong to batch `cand - 1`). -/
structure SkelPart where
  cand : Nat
  recvs : List CommId
  sends : List CommId
deriving DecidableEq, Repr

/-- receives that go into the part emitted for batch `i`: those of batch `i-1` addressed to `r` -/
def candRecvs (r : Nat) (B : List (List CommId)) (i : Nat) : List CommId :=
  if i = 0 then [] else (B.getD (i - 1) []).filter fun c => decide (c.dst = r)

/-- sends of the part emitted for batch `i`: those of batch `i` leaving `r` (none for the
    trailing part `i = B.length`) -/
def candSends (r : Nat) (B : List (List CommId)) (i : Nat) : List CommId :=
  (B.getD i []).filter fun c => decide (c.src = r)

def candidates (r : Nat) (B : List (List CommId)) : List SkelPart :=
  (List.range (B.length + 1)).map fun i => ⟨i, candRecvs r B i, candSends r B i⟩

def SkelPart.isEmpty (p : SkelPart) : Bool := p.recvs.isEmpty && p.sends.isEmpty

/-- Step 3: a part is emitted for a batch iff it has receives or sends (`if recv_ids or
    send_ids`), the trailing part iff it has receives -/
def keptParts (r : Nat) (B : List (List CommId)) : List SkelPart :=
  (candidates r B).filter fun p => !p.isEmpty

/-- … and a rank without any communication gets one empty part -/
def partsOf (r : Nat) (B : List (List CommId)) : List SkelPart :=
  if keptParts r B = [] then [⟨0, [], []⟩] else keptParts r B

/-- `needed_pids` of the part with id `pid`: the linear chain -/
def chainNeeds (pid : Nat) : List Nat := if pid = 0 then [] else [pid - 1]

/-- The communication skeleton of the partition of all `n` ranks. -/
def skeleton (n : Nat) (g : CommGraph) : List (List SkelPart) :=
  (List.range n).map fun r => partsOf r (rawBatches g)

/-- `name_to_send_nodes` of a part: its sends grouped by the array they send (`dataOf`: the
    node index of the payload), groups in first-occurrence order, sends in part order
    (`setdefault(name, []).append(send)`). -/
def groupSends (dataOf : CommId → Nat) (sends : List CommId) : List (Nat × List CommId) :=
  (sends.map dataOf).eraseDups.map fun d => (d, sends.filter fun c => dataOf c == d)

end Pt.Dist

/-! ## Milestone 2: the rank-local program, placement of arrays (step 4/5) and the parts (step 6) -/

namespace Pt.Dist

inductive NodeKind where
  | input (name : Nat)                       -- placeholder (user input name)
  | data                                     -- data wrapper
  | recv (src tag : Nat)                     -- DistributedRecv
  | op (args : List Nat)                     -- any computing node
  | send (data dst tag pass : Nat)           -- DistributedSendRefHolder (value = pass-through)
deriving DecidableEq, Repr

structure PNode where
  id : Nat
  kind : NodeKind
  stored : Bool          -- tagged ImplStored
deriving DecidableEq, Repr

/-- one rank's DAG (live nodes, in an order in which operands precede users) and its outputs
    `(output name, node id)` -/
structure RankSrc where
  nodes : List PNode
  outputs : List (Nat × Nat)
deriving Repr

namespace RankSrc
variable (s : RankSrc)

def get (i : Nat) : Option PNode := s.nodes.find? fun n => n.id == i

def kind (i : Nat) : NodeKind := match s.get i with
  | some n => n.kind
  | none => .data

/-- every edge (`DependencyMapper`, `DirectPredecessorsGetter`: a holder has its payload AND its
    pass-through as predecessors) -/
def structCh (i : Nat) : List Nat := match s.kind i with
  | .op args => args
  | .send d _ _ p => [d, p]
  | _ => []

/-- data flow only (`_DistributedInputReplacer`, `_LocalSendRecvDepGatherer`: a holder IS its
    pass-through) -/
def valueCh (i : Nat) : List Nat := match s.kind i with
  | .op args => args
  | .send _ _ _ p => [p]
  | _ => []

/-- reflexive-transitive closure of a child relation, by fuel -/
def closure (ch : Nat → List Nat) : Nat → Nat → List Nat
  | 0, i => [i]
  | f + 1, i => i :: (ch i).flatMap (closure ch f)

def fuel : Nat := s.nodes.length + 1

def structDeps (i : Nat) : List Nat := closure s.structCh s.fuel i
def valueDeps (i : Nat) : List Nat := closure s.valueCh s.fuel i

def isRecv (i : Nat) : Bool := match s.kind i with | .recv _ _ => true | _ => false
def isInputLike (i : Nat) : Bool := match s.kind i with | .input _ => true | .data => true | _ => false

/-- a holder carries the tags of its pass-through -/
def storedEff : Nat → Nat → Bool
  | 0, _ => false
  | f + 1, i => match s.get i with
    | some n => match n.kind with
      | .send _ _ _ p => storedEff f p
      | _ => n.stored
    | none => false

def ids : List Nat := s.nodes.map (·.id)

/-- (send id, payload node) of rank `r` -/
def sendsOf (r : Nat) : List (CommId × Nat) := s.nodes.filterMap fun n => match n.kind with
  | .send d dst tag _ => some (⟨r, dst, tag⟩, d)
  | _ => none

/-- (receive id, receive node) of rank `r` -/
def recvsOf (r : Nat) : List (CommId × Nat) := s.nodes.filterMap fun n => match n.kind with
  | .recv src tag => some (⟨src, r, tag⟩, n.id)
  | _ => none

def sentArrays (r : Nat) : List Nat := ((s.sendsOf r).map (·.2)).eraseDups
def recvArrays (r : Nat) : List Nat := (s.recvsOf r).map (·.2)
def outputArrays : List Nat := (s.outputs.map (·.2)).eraseDups

/-- `collect_materialized_nodes(outputs, include_outputs=False) - received - sent`: inputs,
    arrays tagged ImplStored (a holder via its pass-through) -/
def materialized (r : Nat) : List Nat :=
  s.ids.filter fun i => (s.isInputLike i || s.storedEff s.fuel i)
    && !(s.recvArrays r).contains i && !(s.sentArrays r).contains i

/-- materialised / sent / output arrays -/
def mso (r : Nat) : List Nat := (s.materialized r ++ s.sentArrays r ++ s.outputArrays).eraseDups

end RankSrc

abbrev Program := List RankSrc

def Program.rank (p : Program) (r : Nat) : RankSrc := p.getD r ⟨[], []⟩

/-- step (a), valid programs: the communication graph the ranks gather (receives a payload
    depends on = receives in its data-flow closure) -/
def Program.commGraph (p : Program) : CommGraph :=
  { sends := (List.range p.length).flatMap fun r =>
      ((p.rank r).sendsOf r).map fun (c, d) =>
        { rank := r, dst := c.dst, tag := c.tag,
          deps := (((p.rank r).valueDeps d).filterMap fun i => match (p.rank r).kind i with
            | .recv src tag => some (src, tag)
            | _ => none).eraseDups },
    recvs := (List.range p.length).flatMap fun r =>
      ((p.rank r).recvsOf r).map fun (c, _) => { rank := r, src := c.src, tag := c.tag } }

/-- index of the part of `parts` that carries communication id `c` (as a send or a receive) -/
def partIndexOf (parts : List SkelPart) (c : CommId) : Nat :=
  parts.findIdx fun p => p.sends.contains c || p.recvs.contains c

section Place
variable (s : RankSrc) (r : Nat) (parts : List SkelPart)

/-- `mso_ary_to_first_dep_send_part_id[a]`: the MINIMUM, over the sends whose payload depends
    (structurally) on `a`, of the send's part; `nparts` if there is none -/
def firstDepSend (a : Nat) : Nat :=
  ((s.sendsOf r).filter fun cd => (s.structDeps cd.2).contains a).foldl
    (fun acc cd => Nat.min acc (partIndexOf parts cd.1)) parts.length

/-- `mso_ary_to_part_id`: as late as possible, but no later than the first dependent send -/
def placeMso (a : Nat) : Nat := Nat.min (firstDepSend s r parts a) (parts.length - 1)

/-- part of a received array: the part that receives it -/
def placeRecv (a : Nat) : Nat :=
  match (s.recvsOf r).find? fun cd => cd.2 == a with
  | some cd => partIndexOf parts cd.1
  | none => 0

/-- `stored_ary_to_part_id` -/
def placeStored (a : Nat) : Nat :=
  if (s.recvArrays r).contains a then placeRecv s r parts a else placeMso s r parts a

def storedArrays : List Nat := (s.mso r ++ s.recvArrays r).eraseDups

/-- `get_materialized_predecessors`: walk the predecessors, stop at materialised arrays -/
def matPreds : Nat → Nat → List Nat
  | 0, _ => []
  | f + 1, a => (s.structCh a).flatMap fun c =>
      if (s.materialized r).contains c then [c] else matPreds f c

/-- stored arrays promoted to part outputs: materialised predecessors of a stored array that
    lives in another part -/
def promoted : List Nat :=
  ((storedArrays s r).flatMap fun a =>
    (matPreds s r s.fuel a).filter fun m => placeStored s r parts a != placeStored s r parts m).eraseDups

/-- output arrays of part `k` -/
def partOutputArrays (k : Nat) : List Nat :=
  ((s.outputArrays ++ s.sentArrays r ++ promoted s r parts).filter fun a => placeStored s r parts a == k).eraseDups

/-- what the expression of array `a` reads when it is rewritten for part `k`
    (`_DistributedInputReplacer.rec`): receives and promoted arrays that are not outputs of this
    part become placeholders, user placeholders are recorded, everything else is recomputed -/
def reads (k : Nat) : Nat → Nat → List Nat
  | 0, _ => []
  | f + 1, a =>
    if s.isRecv a then [a]
    else if !(partOutputArrays s r parts k).contains a && (promoted s r parts).contains a then [a]
    else match s.kind a with
      | .input _ => [a]
      | _ => (s.valueCh a).flatMap (reads k f)

/-- name of an array in the partition: user inputs keep their name, everything else gets the
    canonical generated name `base + node id` -/
def nameOf (base : Nat) (a : Nat) : Nat := match s.kind a with
  | .input n => if (promoted s r parts).contains a then base + a else n
  | _ => base + a

/-- the name under which part `k` reads array `a` -/
def readName (base k a : Nat) : Nat := match s.kind a with
  | .input n => if !(partOutputArrays s r parts k).contains a && (promoted s r parts).contains a
      then base + a else n
  | _ => base + a

/-- the names part `k` reads -/
def partInputs (base k : Nat) : List Nat :=
  (((partOutputArrays s r parts k).flatMap (reads s r parts k s.fuel)).map
    (readName s r parts base k)).eraseDups

def partOutputs (base k : Nat) : List Nat :=
  ((s.outputs.filter fun o => placeStored s r parts o.2 == k).map (·.1)
   ++ (((s.sentArrays r ++ promoted s r parts).filter fun a => placeStored s r parts a == k).map
        fun a => base + a)).eraseDups

def dataOfSend (c : CommId) : Nat := match (s.sendsOf r).find? fun cd => cd.1 == c with
  | some cd => cd.2
  | none => 0

def nodeOfRecv (c : CommId) : Nat := match (s.recvsOf r).find? fun cd => cd.1 == c with
  | some cd => cd.2
  | none => 0

/-- step 6: the `DistributedGraphPart`s of rank `r` -/
def mkParts (base : Nat) : List Part :=
  parts.zipIdx.map fun (p, k) =>
    { pid := k, needs := chainNeeds k,
      inputs := partInputs s r parts base k,
      outputs := partOutputs s r parts base k,
      recvs := p.recvs.map fun c => ⟨base + nodeOfRecv s r c, c.src, c.tag⟩,
      sends := p.sends.map fun c => ⟨base + dataOfSend s r c, c.dst, c.tag⟩,
      pure := true }

def userNames : List Nat := (s.nodes.filterMap fun n => match n.kind with
  | .input nm => some nm
  | _ => none).eraseDups

end Place

/-- The model of `find_distributed_partition` on all ranks: the partition of program `p`
    (generated names are `base + node id`; `base` exceeds every user name). -/
def partitionOf (base : Nat) (p : Program) : Partition :=
  let B := rawBatches p.commGraph
  (List.range p.length).map fun r =>
    let s := p.rank r
    let parts := partsOf r B
    { parts := mkParts s r parts base, user := userNames s, overall := s.outputs.map (·.1) }

/-! ## the decidable hypothesis of `partition_wf_partial` -/

/-- dependency closures are closed under the child relation (node ids suffice) -/
def RankSrc.closedB (s : RankSrc) : Bool :=
  s.ids.all fun a => (s.structDeps a).all fun b => (s.structCh b).all fun c => (s.structDeps a).contains c

/-- per-rank part of the check -/
def rankGoodB (s : RankSrc) (r : Nat) : Bool :=
  s.closedB && decide s.ids.Nodup && decide ((s.recvsOf r).map (·.1)).Nodup
  && (s.sendsOf r).all (fun cd =>
      (s.structDeps cd.2).all (fun a => !s.isRecv a || (s.valueDeps cd.2).contains a)
      && !s.isRecv cd.2)

/-- executable sufficient condition for `GoodProgram` -/
def checkGood (p : Program) : Bool :=
  (match diagnose p.commGraph with | .ok _ => true | .error _ => false)
  && (List.range p.length).all fun r => rankGoodB (p.rank r) r

/-- user names (inputs, overall outputs) live below `base`; output names are distinct -/
def checkNames (base : Nat) (p : Program) : Bool :=
  (List.range p.length).all fun r =>
    let s := p.rank r
    s.outputs.all (fun o => decide (o.1 < base)) && (userNames s).all (fun n => decide (n < base))
    && decide (s.outputs.map (·.1)).Nodup

end Pt.Dist

/-
  PtModel.Binop — model of the layer that turns an API call into an index lambda
  for every binary operator, comparison, logical operation and `where`:
  `pytato/utils.py: broadcast_binary_op, update_bindings_and_get_broadcasted_expr,
  with_indices_for_broadcasted_shape`, `pytato/array.py: Array._binary_op, _compare,
  logical_or/and, where, _unary_op, logical_not`, `pytato/cmath.py: _apply_elem_wise_func`.

  An operand is an array (bound to `_in<position>`, addressed through its
  broadcast subscript — `0` on stretched length-1 axes, leading axes missing —
  or as a bare variable if 0-d), a NumPy scalar or a Python scalar (inlined).
  With `cast_to_result_dtype` an array / NumPy-scalar operand whose dtype differs
  from the result dtype is wrapped in a `TypeCast`, a Python scalar is converted
  to the result dtype — except, for `pow`, an integer operand under a
  non-integer result.  The result dtype is a parameter (NumPy's promotion is
  not modelled here; C03 covers it).
-/
import PtModel.Scalar
import PtModel.Spec
import PtModel.Lower
import PtModel.Shape
import PtModel.Raise
namespace Pt

/-- an operand of an API call: shape + dtype of an array, or a scalar literal -/
inductive BOpd where
  | arr (shape : Shape) (dtype : String)
  | npScalar (lit : SExpr) (dtype : String)
  | pyScalar (lit : SExpr)
deriving Repr

namespace Lower

def opdShape : BOpd → Shape
  | .arr s _ => s
  | _ => []

/-- `np.issubdtype(dt, np.integer)` on dtype names -/
def isIntDtype (dt : String) : Bool := dt.startsWith "int" || dt.startsWith "uint"

/-- `update_bindings_and_get_broadcasted_expr(opd, "_in<k>", bindings, r)` -/
def opdExpr (k : Nat) (r : Shape) : BOpd → SExpr
  | .arr s _ => if s = [] then .var (inName k) else .sub (inName k) (bcastSubscript s r)
  | .npScalar c _ => c
  | .pyScalar c => c

/-- `result_dtype.type(c)` for a Python scalar `c` whose value is representable -/
def convLit (res : String) : SExpr → SExpr
  | .int n => if isIntDtype res then .int n else if res = "bool" then .int n else .rat n 1
  | .bool b =>
    if res = "bool" then .bool b
    else if isIntDtype res then .int (if b then 1 else 0) else .rat (if b then 1 else 0) 1
  | c => c

def isPyInt : SExpr → Bool
  | .int _ => true
  | _ => false

/-- `cast_to_result_type(opd, expr)` -/
def castOpd (res : String) (isPow : Bool) (o : BOpd) (e : SExpr) : SExpr :=
  match o with
  | .arr _ dt | .npScalar _ dt =>
    if dt ≠ res ∧ ¬ (isPow ∧ isIntDtype dt ∧ ¬ isIntDtype res) then .cast res e else e
  | .pyScalar c =>
    match c with
    | .nan => e
    | _ => if ¬ (isPow ∧ isPyInt c ∧ ¬ isIntDtype res) then convLit res c else e

def isConstLit : SExpr → Bool
  | .int _ | .rat _ _ | .bool _ => true
  | _ => false

def negLit : SExpr → SExpr
  | .int n => .int (-n)
  | .rat p q => .rat (-p) q
  | .bool b => .int (if b then -1 else 0)
  | e => .mul (.int (-1)) e

/-- `op(expr1, expr2)` as pymbolic builds it -/
def opExpr (op : Raise.BinOp) (e1 e2 : SExpr) : SExpr :=
  match op with
  | .add => .add e1 e2
  | .sub => if isConstLit e2 then .add e1 (negLit e2) else .add e1 (.mul (.int (-1)) e2)
  | .mult => .mul e1 e2
  | .truediv => .quot e1 e2
  | .floordiv => .fdiv e1 e2
  | .mod => .rem e1 e2
  | .power => .pow e1 e2
  | .bitwiseAnd => .call "bitand" [e1, e2]
  | .bitwiseOr => .call "bitor" [e1, e2]
  | .bitwiseXor => .call "bitxor" [e1, e2]
  | .cmp c => .cmp c e1 e2
  | .logicalAnd => .land e1 e2
  | .logicalOr => .lor e1 e2

/-- the expression of `broadcast_binary_op(a1, a2, op, …)` for result shape `r` -/
def binopExpr (op : Raise.BinOp) (a1 a2 : BOpd) (r : Shape) (res : String) (cast isPow : Bool) :
    SExpr :=
  let e1 := opdExpr 0 r a1
  let e2 := opdExpr 1 r a2
  if cast then opExpr op (castOpd res isPow a1 e1) (castOpd res isPow a2 e2) else opExpr op e1 e2

/-- `bool(c)` for a scalar literal -/
def truthLit : SExpr → SExpr
  | .int n => .bool (n != 0)
  | .rat p _ => .bool (p != 0)
  | .bool b => .bool b
  | c => c

/-- `logical_or` / `logical_and`: a scalar operand next to an array only matters
    through its truth value (`x = bool(x)`) -/
def logicalOpd : BOpd → BOpd
  | .npScalar c _ => .pyScalar (truthLit c)
  | .pyScalar c => .pyScalar (truthLit c)
  | o => o

def isLogical : Raise.BinOp → Bool
  | .logicalAnd | .logicalOr => true
  | _ => false

/-- shape + expression; `none` if the shapes do not broadcast -/
def binop (op : Raise.BinOp) (a1 a2 : BOpd) (res : String) (cast isPow : Bool) :
    Option (Shape × SExpr) :=
  let b1 := if isLogical op then logicalOpd a1 else a1
  let b2 := if isLogical op then logicalOpd a2 else a2
  (ptBroadcast [opdShape b1, opdShape b2]).map fun r => (r, binopExpr op b1 b2 r res cast isPow)

/-- `pt.where(c, x, y)` (no casts) -/
def whereExpr (c x y : BOpd) (r : Shape) : SExpr :=
  .ite (opdExpr 0 r c) (opdExpr 1 r x) (opdExpr 2 r y)

def where_ (c x y : BOpd) : Option (Shape × SExpr) :=
  (ptBroadcast [opdShape c, opdShape x, opdShape y]).map fun r => (r, whereExpr c x y r)

/-- `Array._unary_op(operator.neg)` and `logical_not`: `_in0[_0, …]` (bare if 0-d) -/
def selfSubscript (nm : String) (rank : Nat) : SExpr :=
  if rank = 0 then .var nm else .sub nm ((List.range rank).map ivar)

def negExpr (rank : Nat) : SExpr := .mul (.int (-1)) (selfSubscript "_in0" rank)
def notExpr (rank : Nat) : SExpr := .lnot (selfSubscript "_in0" rank)

/-- `_apply_elem_wise_func(inputs, fname)`: `pytato.c99.<fname>(in_0[_0, …], …)`;
    array inputs (all of one shape, rank `rank`) are bound to `in_<position>`,
    scalar inputs inlined -/
def elemwiseArgs (rank : Nat) : Nat → List (Option SExpr) → List SExpr
  | _, [] => []
  | k, none :: rest => .sub ("in_" ++ toString k) ((List.range rank).map ivar) :: elemwiseArgs rank (k + 1) rest
  | k, some c :: rest => c :: elemwiseArgs rank (k + 1) rest

def elemwiseCall (fname : String) (rank : Nat) (inputs : List (Option SExpr)) : SExpr :=
  .call ("pytato.c99." ++ fname) (elemwiseArgs rank 0 inputs)

end Lower

namespace Spec

/-- the value of an operand at output index `i` (NumPy broadcasting) -/
def opdValue (r : Shape) (i : Idx) : Option (Arr Val) → SExpr → Val
  | some a, _ => (broadcastTo r a).get i
  | none, c => Raise.litVal c

/-- the operand's value as the operator sees it: converted to the result dtype
    where the real code inserts a cast / converts the literal -/
def castVal (res : String) (isPow : Bool) (o : BOpd) (v : Val) : Val :=
  match o with
  | .arr _ dt | .npScalar _ dt =>
    if dt ≠ res ∧ ¬ (isPow ∧ Lower.isIntDtype dt ∧ ¬ Lower.isIntDtype res) then Val.cast res v else v
  | .pyScalar c => Raise.litVal (Lower.castOpd res isPow o c)

/-- NumPy's `op(a1, a2)` with broadcasting: `out[i] = op(a1[bcast i], a2[bcast i])` -/
def binopV (op : Raise.BinOp) (o1 o2 : BOpd) (v1 v2 : Option (Arr Val)) (r : Shape) (res : String)
    (cast isPow : Bool) : Arr Val :=
  ⟨r, fun i =>
    let x1 := opdValue r i v1 (Lower.opdExpr 0 r o1)
    let x2 := opdValue r i v2 (Lower.opdExpr 1 r o2)
    if cast then op.apply (castVal res isPow o1 x1) (castVal res isPow o2 x2) else op.apply x1 x2⟩

/-- `numpy.where(c, x, y)` with broadcasting -/
def whereV (oc ox oy : BOpd) (vc vx vy : Option (Arr Val)) (r : Shape) : Arr Val :=
  ⟨r, fun i =>
    match (opdValue r i vc (Lower.opdExpr 0 r oc)).truthy? with
    | some true => opdValue r i vx (Lower.opdExpr 1 r ox)
    | some false => opdValue r i vy (Lower.opdExpr 2 r oy)
    | none => .undef⟩

end Spec
end Pt

/-
  PtModel.CallsMulti — function calls with SEVERAL named results, inline tags and
  `trace_call` (extends PtModel.Calls; core Lean only).

  `result key tagged params returns bindings` is
  `NamedCallResult(Call(FunctionDefinition(params, returns), bindings, tags), key)`,
  `tagged` = the call carries `InlineCallTag`.  A function body (`returns`) is its own
  name space: only the parameters are bound there.

    denote            value of a term (calls evaluated, never inlined)
    substPlaceholders `PlaceholderSubstitutor`
    inline            `Inliner`: inlines exactly the tagged calls, everywhere (also in the
                      bodies and bindings of calls that stay)
    tagAll            `InlineMarker` (`tag_all_calls_to_be_inlined`)
    tupleReturns / tupleUnpack / dictUnpack   the return conventions of
                      `trace_call` / `FunctionDefinition.__call__`
    traceResult       `trace_call` of a function that is parametric in its arguments
-/
import PtModel.Calls
namespace Pt
namespace CallsM

open Calls (lookup posName kwName)

inductive Term where
  | placeholder (name : String)
  | error
  | op (f : String) (args : List Term)
  | result (key : String) (tagged : Bool) (params : List String)
      (returns : List (String × Term)) (bindings : List (String × Term))
deriving Repr, Inhabited

abbrev Binds := List (String × Term)

/-- the entry named `k` (`KeyError` ↦ `error`) -/
def getRet (rets : Binds) (k : String) : Term := (lookup rets k).getD .error

section
variable {V : Type} (interp : String → List V → V) (undef : V)

def callEnv (params : List String) (vals : List (String × V)) : String → V :=
  fun p => if p ∈ params then (lookup vals p).getD undef else undef

mutual
def denote : (String → V) → Term → V
  | env, .placeholder n => env n
  | _, .error => undef
  | env, .op f args => interp f (denoteList env args)
  | env, .result k _ ps rets bs =>
    denoteRet (callEnv undef ps (denoteBinds env bs)) k rets
def denoteList : (String → V) → List Term → List V
  | _, [] => []
  | env, t :: ts => denote env t :: denoteList env ts
def denoteBinds : (String → V) → Binds → List (String × V)
  | _, [] => []
  | env, (n, t) :: bs => (n, denote env t) :: denoteBinds env bs
/-- value of the entry named `k` (first entry wins; absent ↦ `undef`) -/
def denoteRet : (String → V) → String → Binds → V
  | _, _, [] => undef
  | env, k, (n, t) :: rs => if n == k then denote env t else denoteRet env k rs
end
end

/-! ## `PlaceholderSubstitutor` -/

mutual
def substPlaceholders (σ : String → Term) : Term → Term
  | .placeholder n => σ n
  | .error => .error
  | .op f args => .op f (substList σ args)
  | .result k tg ps rets bs => .result k tg ps rets (substBinds σ bs)
def substList (σ : String → Term) : List Term → List Term
  | [] => []
  | t :: ts => substPlaceholders σ t :: substList σ ts
def substBinds (σ : String → Term) : Binds → Binds
  | [] => []
  | (n, t) :: bs => (n, substPlaceholders σ t) :: substBinds σ bs
end

def callSubst (params : List String) (bindings : Binds) : String → Term :=
  fun p => if p ∈ params then (lookup bindings p).getD .error else .error

/-! ## `Inliner`: inline exactly the tagged calls -/

mutual
def inline : Term → Term
  | .placeholder n => .placeholder n
  | .error => .error
  | .op f args => .op f (inlineList args)
  | .result k true ps rets bs =>
    substPlaceholders (callSubst ps (inlineBinds bs)) (inlineRet k rets)
  | .result k false ps rets bs => .result k false ps (inlineBinds rets) (inlineBinds bs)
def inlineList : List Term → List Term
  | [] => []
  | t :: ts => inline t :: inlineList ts
def inlineBinds : Binds → Binds
  | [] => []
  | (n, t) :: bs => (n, inline t) :: inlineBinds bs
/-- the inlined return expression named `k` -/
def inlineRet : String → Binds → Term
  | _, [] => .error
  | k, (n, t) :: rs => if n == k then inline t else inlineRet k rs
end

/-! ## predicates on the calls of a term (all frames: bodies and bindings too) -/

mutual
/-- no call at all -/
def callFree : Term → Bool
  | .placeholder _ => true
  | .error => true
  | .op _ args => callFreeList args
  | .result _ _ _ _ _ => false
def callFreeList : List Term → Bool
  | [] => true
  | t :: ts => callFree t && callFreeList ts
end

mutual
/-- every call, at every depth (bodies, bindings), satisfies `p tagged` -/
def allCalls (p : Bool → Bool) : Term → Bool
  | .placeholder _ => true
  | .error => true
  | .op _ args => allCallsList p args
  | .result _ tg _ rets bs => p tg && allCallsBinds p rets && allCallsBinds p bs
def allCallsList (p : Bool → Bool) : List Term → Bool
  | [] => true
  | t :: ts => allCalls p t && allCallsList p ts
def allCallsBinds (p : Bool → Bool) : Binds → Bool
  | [] => true
  | (_, t) :: bs => allCalls p t && allCallsBinds p bs
end

/-- every reachable call carries the inline tag -/
abbrev allTagged (t : Term) : Bool := allCalls id t
/-- no reachable call carries the inline tag -/
abbrev noTagged (t : Term) : Bool := allCalls not t

mutual
/-- number of call sites (result nodes), all frames -/
def countCalls : Term → Nat
  | .placeholder _ => 0
  | .error => 0
  | .op _ args => countCallsList args
  | .result _ _ _ rets bs => 1 + countCallsBinds rets + countCallsBinds bs
def countCallsList : List Term → Nat
  | [] => 0
  | t :: ts => countCalls t + countCallsList ts
def countCallsBinds : Binds → Nat
  | [] => 0
  | (_, t) :: bs => countCalls t + countCallsBinds bs
end

/-! ## `InlineMarker` -/

mutual
/-- set the tag of every call to `b`, at every depth (`tagAll = setTags true`) -/
def setTags (b : Bool) : Term → Term
  | .placeholder n => .placeholder n
  | .error => .error
  | .op f args => .op f (setTagsList b args)
  | .result k _ ps rets bs => .result k b ps (setTagsBinds b rets) (setTagsBinds b bs)
def setTagsList (b : Bool) : List Term → List Term
  | [] => []
  | t :: ts => setTags b t :: setTagsList b ts
def setTagsBinds (b : Bool) : Binds → Binds
  | [] => []
  | (n, t) :: bs => (n, setTags b t) :: setTagsBinds b bs
end

/-- `tag_all_calls_to_be_inlined` -/
abbrev tagAll (t : Term) : Term := setTags true t
/-- forget the tags (for "nothing but tags changed") -/
abbrev eraseTags (t : Term) : Term := setTags false t

mutual
/-- the DEFECTIVE marker (seeded change C12-F): an already tagged call is returned
    as it is — whatever is below it is never visited -/
def tagAllStop : Term → Term
  | .placeholder n => .placeholder n
  | .error => .error
  | .op f args => .op f (tagAllStopList args)
  | .result k true ps rets bs => .result k true ps rets bs
  | .result k false ps rets bs => .result k true ps (tagAllStopBinds rets) (tagAllStopBinds bs)
def tagAllStopList : List Term → List Term
  | [] => []
  | t :: ts => tagAllStop t :: tagAllStopList ts
def tagAllStopBinds : Binds → Binds
  | [] => []
  | (n, t) :: bs => (n, tagAllStop t) :: tagAllStopBinds bs
end

/-- `inline_calls(tag_all_calls_to_be_inlined(t))` -/
def inlineAll (t : Term) : Term := inline (tagAll t)

/-! ## free placeholders (of the current frame: a body's names are bound) -/

mutual
def freePh : Term → List String
  | .placeholder n => [n]
  | .error => []
  | .op _ args => freePhList args
  | .result _ _ _ _ bs => freePhBinds bs
def freePhList : List Term → List String
  | [] => []
  | t :: ts => freePh t ++ freePhList ts
def freePhBinds : Binds → List String
  | [] => []
  | (_, t) :: bs => freePh t ++ freePhBinds bs
end

/-! ## sharing: sub-terms of the current frame and DAG size

A term denotes a DAG after maximal sharing (what `deduplicate`, the last step of
`inline_calls`, produces): its nodes are its DISTINCT sub-terms.  "`t` fits into
`n` nodes" is stated without deciding equality of terms: some list of at most
`n` terms contains every sub-term. -/

mutual
/-- the sub-terms of the current frame (function bodies are other frames) -/
def frameSub : Term → List Term
  | .placeholder n => [.placeholder n]
  | .error => [.error]
  | .op f args => .op f args :: frameSubList args
  | .result k tg ps rets bs => .result k tg ps rets bs :: frameSubBinds bs
def frameSubList : List Term → List Term
  | [] => []
  | t :: ts => frameSub t ++ frameSubList ts
def frameSubBinds : Binds → List Term
  | [] => []
  | (_, t) :: bs => frameSub t ++ frameSubBinds bs
end

/-- every sub-term of the terms `ts` occurs in `l` -/
def CoversList (l : List Term) (ts : List Term) : Prop := ∀ s ∈ frameSubList ts, s ∈ l
def CoversBinds (l : List Term) (bs : Binds) : Prop := ∀ s ∈ frameSubBinds bs, s ∈ l
/-- the terms `ts` TOGETHER (shared sub-terms counted once) fit into `n` DAG nodes -/
def DagSizeLe (ts : List Term) (n : Nat) : Prop := ∃ l : List Term, l.length ≤ n ∧ CoversList l ts
def DagSizeLeBinds (bs : Binds) (n : Nat) : Prop := ∃ l : List Term, l.length ≤ n ∧ CoversBinds l bs

/-- all results of a call, in the order of `returns` -/
def allResults (tg : Bool) (ps : List String) (rets bs : Binds) : List Term :=
  rets.map fun kv => .result kv.1 tg ps rets bs

/-! ## return conventions (`trace_call`, `FunctionDefinition.__call__`) -/

def tupleName (i : Nat) : String := "_" ++ toString i

/-- `{f"_{iout}": out for iout, out in enumerate(output)}`, numbering from `i` -/
def tupleReturnsFrom : Nat → List Term → Binds
  | _, [] => []
  | i, t :: ts => (tupleName i, t) :: tupleReturnsFrom (i + 1) ts

def tupleReturns (outs : List Term) : Binds := tupleReturnsFrom 0 outs

/-- `tuple(call_site[f"_{iarg}"] for iarg in range(len(self.returns)))` -/
def tupleUnpack (tg : Bool) (ps : List String) (rets bs : Binds) : List Term :=
  (List.range rets.length).map fun i => .result (tupleName i) tg ps rets bs

/-- `constantdict({kw: call_site[kw] for kw in self.returns})` -/
def dictUnpack (tg : Bool) (ps : List String) (rets bs : Binds) : Binds :=
  rets.map fun kv => (kv.1, .result kv.1 tg ps rets bs)

/-- the single-array convention: `returns = {"_": output}`, result `call_site["_"]` -/
def arrayUnpack (tg : Bool) (ps : List String) (out : Term) (bs : Binds) : Term :=
  .result "_" tg ps [("_", out)] bs

/-- insertion sort of names by `le` -/
def insSort (le : String → String → Bool) : List String → List String
  | [] => []
  | a :: l => ins a (insSort le l)
where ins (a : String) : List String → List String
  | [] => [a]
  | b :: l => if le a b then a :: b :: l else b :: ins a l

def strLe (a b : String) : Bool := decide (a < b) || a == b

/-- the DEFECTIVE unpacking (seeded change C12-E):
    `tuple(call_site[name] for name in sorted(self.returns))` -/
def tupleUnpackSorted (tg : Bool) (ps : List String) (rets bs : Binds) : List Term :=
  (insSort strLe (rets.map (·.1))).map fun k => .result k tg ps rets bs

/-! ## `trace_call`

A Python function that is parametric in its arguments is a *template*: named
output expressions over formal slots; applying it to arguments substitutes the
argument terms for the slots.  `trace_call` applies it to fresh placeholders
(`ρ slot` = the placeholder's name), makes that the function body, and binds
`ρ slot ↦ argument` at the call site: one placeholder per PARAMETER (not per
distinct argument object). -/

/-- direct application `f(*args, **kwargs)` -/
def applyDirect (args : String → Term) (template : Binds) : Binds := substBinds args template

def traceBody (ρ : String → String) (template : Binds) : Binds :=
  substBinds (fun s => .placeholder (ρ s)) template

def traceBindings (ρ : String → String) (formals : List String) (args : String → Term) : Binds :=
  formals.map fun s => (ρ s, args s)

/-- the result named `k` of `trace_call(f, …)` -/
def traceResult (tg : Bool) (ρ : String → String) (formals : List String) (args : String → Term)
    (template : Binds) (k : String) : Term :=
  .result k tg (formals.map ρ) (traceBody ρ template) (traceBindings ρ formals args)

/-- Formal slots of a call with `nargs` positional arguments and keywords `kws`.
    Positional slot `i` is written `_pt_<i>` — exactly the keyword names `trace_call`
    rejects (`RE_ARGNAME`), so slots of positional and keyword arguments never
    coincide for an accepted call — and then every slot `s` gets the placeholder
    `in_<s>`: `in__pt_<i>` for positional `i`, `in_<kw>` for keyword `kw`. -/
def posSlot (i : Nat) : String := "_pt_" ++ toString i
def traceFormals (nargs : Nat) (kws : List String) : List String :=
  (List.range nargs).map posSlot ++ kws

/-- the result named `k` of `trace_call(f, *args, **kwargs)` with pytato's names -/
def traceCall (tg : Bool) (nargs : Nat) (kws : List String) (args : String → Term)
    (template : Binds) (k : String) : Term :=
  traceResult tg kwName (traceFormals nargs kws) args template k

end CallsM
end Pt

/-
  PtModel.Dist — model of pytato's distributed layer (F8).

  * `Part` / `RankProg` / `Partition` : the `DistributedGraphPart(ition)` records of all ranks.
  * `GState`, `Step`                  : the executor of `distributed/execute.py` as a labelled
                                        transition system (labels `exec r pid`, `deliver r names`).
  * `WFwith`, `WF`, `checkWF`         : the contract of a partition (the seven clauses of C09).
  * `peelB` / `batches`               : communication batches (dependency levels, Kahn style).
  * `numberTags`                      : first-seen numbering of `number_distributed_tags`.
  * `CommGraph`, `Valid`, `diagnose`  : communication graph of a multi-rank program and the
                                        diagnostics of find/verify_distributed_partition (C10).

  Executable, no Mathlib.
-/
namespace Pt.Dist

/-! ## generic: dependency batches by peeling (Kahn) -/

section Peel
variable {α : Type} [DecidableEq α]

/-- nodes not yet placed whose dependencies have all been placed -/
def peelNew (nodes : List α) (deps : α → List α) (A : List α) : List α :=
  nodes.filter fun c => decide (c ∉ A ∧ ∀ d ∈ deps c, d ∈ A)

/-- `k` rounds of peeling, on the flat list of placed nodes -/
def peelN (nodes : List α) (deps : α → List α) : Nat → List α → List α
  | 0, A => A
  | k + 1, A => peelN nodes deps k (A ++ peelNew nodes deps A)

/-- `k` rounds of peeling, keeping the rounds apart (the *batches*) -/
def peelB (nodes : List α) (deps : α → List α) : Nat → List (List α) → List (List α)
  | 0, B => B
  | k + 1, B => peelB nodes deps k (B ++ [peelNew nodes deps B.flatten])

/-- all nodes get placed within `nodes.length` rounds -/
def acyclicB (nodes : List α) (deps : α → List α) : Bool :=
  nodes.all fun c => decide (c ∈ peelN nodes deps nodes.length [])

/-- batches without the empty trailing rounds -/
def batchesOf (nodes : List α) (deps : α → List α) : List (List α) :=
  (peelB nodes deps nodes.length []).filter fun b => !b.isEmpty

/-- index of the batch holding `c` (number of batches if none) -/
def batchIndex (B : List (List α)) (c : α) : Nat :=
  B.findIdx fun b => decide (c ∈ b)

end Peel

/-! ## partitions -/

abbrev Name := Nat

structure Recv where
  name : Name
  src : Nat
  tag : Nat
deriving DecidableEq, Repr

structure Send where
  name : Name
  dst : Nat
  tag : Nat
deriving DecidableEq, Repr

/-- one `DistributedGraphPart`.  `inputs` = `all_input_names()`;
    `pure` = "no communication node occurs in the expressions of this part's outputs"
    (computed by the serialiser's reflective walk). -/
structure Part where
  pid : Nat
  needs : List Nat
  inputs : List Name
  outputs : List Name
  recvs : List Recv
  sends : List Send
  pure : Bool := true
deriving DecidableEq, Repr

/-- one rank's `DistributedGraphPartition` plus the names passed as `input_args` -/
structure RankProg where
  parts : List Part
  user : List Name
  overall : List Name
deriving Repr

abbrev Partition := List RankProg

def Partition.parts (P : Partition) (r : Nat) : List Part :=
  match P[r]? with
  | some rp => rp.parts
  | none => []

def Partition.user (P : Partition) (r : Nat) : List Name :=
  match P[r]? with
  | some rp => rp.user
  | none => []

def Partition.overall (P : Partition) (r : Nat) : List Name :=
  match P[r]? with
  | some rp => rp.overall
  | none => []

def Part.recvNames (p : Part) : List Name := p.recvs.map (·.name)

/-! ## executor state and transitions -/

structure RState (V : Type) where
  executed : List Nat
  completed : List Name
  ctx : Name → Option V
  rc : Name → Nat

structure GState (V : Type) where
  rk : Nat → RState V
  /-- payload handed to `Isend` for (src, dst, tag), once the sending part ran -/
  sent : Nat → Nat → Nat → Option V

/-- semantics of the part programs and the user inputs -/
structure Sem (V : Type) where
  /-- `run r pid env out` : value of output `out` of part `pid` of rank `r`, given its inputs -/
  run : Nat → Nat → (Name → Option V) → Name → V
  input : Nat → Name → V

def restrict {V : Type} (env : Name → Option V) (names : List Name) : Name → Option V :=
  fun n => if n ∈ names then env n else none

/-- number of parts of `ps` that read `n` (initial reference count of execute.py) -/
def readers (ps : List Part) (n : Name) : Nat := (ps.filter fun p => decide (n ∈ p.inputs)).length

def initR {V : Type} (sem : Sem V) (P : Partition) (r : Nat) : RState V :=
  { executed := [], completed := [],
    ctx := fun n => if n ∈ P.user r then some (sem.input r n) else none,
    rc := readers (P.parts r) }

def init {V : Type} (sem : Sem V) (P : Partition) : GState V :=
  { rk := initR sem P, sent := fun _ _ _ => none }

/-- readiness test of the main loop (execute.py:210-215) -/
def Part.ready {V : Type} (p : Part) (st : RState V) : Prop :=
  p.pid ∉ st.executed ∧ (∀ q ∈ p.needs, q ∈ st.executed) ∧ (∀ rc ∈ p.recvs, rc.name ∈ st.completed)

instance {V : Type} (p : Part) (st : RState V) : Decidable (p.ready st) := by
  unfold Part.ready; infer_instance

def anyReady {V : Type} (P : Partition) (s : GState V) (r : Nat) : Prop :=
  ∃ p ∈ P.parts r, p.ready (s.rk r)

instance {V : Type} (P : Partition) (s : GState V) (r : Nat) : Decidable (anyReady P s r) := by
  unfold anyReady; infer_instance

/-- rank `r` still has parts to execute (`while pids_to_execute`) -/
def unfinished {V : Type} (P : Partition) (s : GState V) (r : Nat) : Prop :=
  ∃ p ∈ P.parts r, p.pid ∉ (s.rk r).executed

instance {V : Type} (P : Partition) (s : GState V) (r : Nat) : Decidable (unfinished P s r) := by
  unfold unfinished; infer_instance

/-- the message for receive `rc` of rank `r` has been sent -/
def arrived {V : Type} (P : Partition) (s : GState V) (r : Nat) (rc : Recv) : Prop :=
  ∃ q ∈ P.parts rc.src, q.pid ∈ (s.rk rc.src).executed ∧ ∃ sd ∈ q.sends, sd.dst = r ∧ sd.tag = rc.tag

instance {V : Type} (P : Partition) (s : GState V) (r : Nat) (rc : Recv) :
    Decidable (arrived P s r rc) := by
  unfold arrived; infer_instance

/-- `rc` is a posted, not yet completed receive of rank `r` -/
def pending {V : Type} (P : Partition) (s : GState V) (r : Nat) (rc : Recv) : Prop :=
  (∃ p ∈ P.parts r, rc ∈ p.recvs) ∧ rc.name ∉ (s.rk r).completed

instance {V : Type} (P : Partition) (s : GState V) (r : Nat) (rc : Recv) :
    Decidable (pending P s r rc) := by
  unfold pending; infer_instance

/-- context after `context.update(result_dict)` -/
def ctxMid {V : Type} (sem : Sem V) (r : Nat) (p : Part) (st : RState V) : Name → Option V :=
  fun n => if n ∈ p.outputs then some (sem.run r p.pid (restrict st.ctx p.inputs) n) else st.ctx n

/-- rank state after executing part `p` (run, update, release the inputs whose count drops to 0
    — except names that are overall outputs `ov`, which execute.py never releases) -/
def execR {V : Type} (sem : Sem V) (r : Nat) (ov : List Name) (p : Part) (st : RState V) : RState V :=
  { executed := p.pid :: st.executed,
    completed := st.completed,
    ctx := fun n => if n ∈ p.inputs ∧ st.rc n - 1 = 0 ∧ n ∉ ov then none else ctxMid sem r p st n,
    rc := fun n => if n ∈ p.inputs then st.rc n - 1 else st.rc n }

def execG {V : Type} (sem : Sem V) (P : Partition) (s : GState V) (r : Nat) (p : Part) : GState V :=
  { rk := fun r' => if r' = r then execR sem r (P.overall r) p (s.rk r) else s.rk r',
    sent := fun a b t =>
      if a = r then
        match p.sends.find? (fun sd => decide (sd.dst = b ∧ sd.tag = t)) with
        | some sd => ctxMid sem r p (s.rk r) sd.name
        | none => s.sent a b t
      else s.sent a b t }

def deliverR {V : Type} (s : GState V) (r : Nat) (S : List Recv) (st : RState V) : RState V :=
  { st with
    completed := S.map (·.name) ++ st.completed,
    ctx := fun n =>
      match S.find? (fun rc => decide (rc.name = n)) with
      | some rc => s.sent rc.src r rc.tag
      | none => st.ctx n }

def deliverG {V : Type} (s : GState V) (r : Nat) (S : List Recv) : GState V :=
  { s with rk := fun r' => if r' = r then deliverR s r S (s.rk r) else s.rk r' }

inductive Label where
  | exec (r pid : Nat)
  | deliver (r : Nat) (names : List Name)
deriving DecidableEq, Repr

/-- One step of the distributed execution: some rank executes a ready part, or — only when
    none of its parts is ready, as in the real loop — completes a non-empty set of receives
    whose messages have been sent (what `Waitsome` may report). -/
inductive Step {V : Type} (sem : Sem V) (P : Partition) : GState V → Label → GState V → Prop where
  | exec (s : GState V) (r : Nat) (p : Part) :
      r < P.length → p ∈ P.parts r → p.ready (s.rk r) →
      Step sem P s (.exec r p.pid) (execG sem P s r p)
  | deliver (s : GState V) (r : Nat) (S : List Recv) :
      r < P.length → S ≠ [] → (∀ rc ∈ S, pending P s r rc ∧ arrived P s r rc) →
      ¬ anyReady P s r → unfinished P s r →
      Step sem P s (.deliver r (S.map (·.name))) (deliverG s r S)

def Terminal {V : Type} (P : Partition) (s : GState V) : Prop :=
  ∀ r, r < P.length → ∀ p ∈ P.parts r, p.pid ∈ (s.rk r).executed

inductive Reachable {V : Type} (sem : Sem V) (P : Partition) : GState V → Prop where
  | init : Reachable sem P (init sem P)
  | step {s s' : GState V} {l : Label} : Reachable sem P s → Step sem P s l s' → Reachable sem P s'

/-- termination measure: unexecuted parts + undelivered receives, over all ranks -/
def muR {V : Type} (P : Partition) (s : GState V) (r : Nat) : Nat :=
  ((P.parts r).filter fun p => decide (p.pid ∉ (s.rk r).executed)).length
  + (((P.parts r).flatMap (·.recvs)).filter fun rc => decide (rc.name ∉ (s.rk r).completed)).length

def mu {V : Type} (P : Partition) (s : GState V) : Nat :=
  ((List.range P.length).map (muR P s)).sum

/-! ## well-formedness: the contract of `DistributedGraphPart` (C09's seven clauses) -/

def needsOf (ps : List Part) (pid : Nat) : List Nat :=
  (ps.filter fun p => decide (p.pid = pid)).flatMap (·.needs)

/-- pids that must have run before `pid` (transitive `needed_pids`), by fuel -/
def ancestors (ps : List Part) : Nat → Nat → List Nat
  | 0, _ => []
  | k + 1, pid => needsOf ps pid ++ (needsOf ps pid).flatMap (ancestors ps k)

def allOutputs (ps : List Part) : List Name := ps.flatMap (·.outputs)
def allRecvs (ps : List Part) : List Recv := ps.flatMap (·.recvs)
def allSends (ps : List Part) : List Send := ps.flatMap (·.sends)

/-- part `q` is `p` itself or runs before it -/
def sameOrEarlier (ps : List Part) (q p : Part) : Prop :=
  q.pid = p.pid ∨ q.pid ∈ ancestors ps ps.length p.pid

def earlier (ps : List Part) (q p : Part) : Prop :=
  q.pid ∈ ancestors ps ps.length p.pid

instance (ps : List Part) (q p : Part) : Decidable (sameOrEarlier ps q p) := by
  unfold sameOrEarlier; infer_instance
instance (ps : List Part) (q p : Part) : Decidable (earlier ps q p) := by
  unfold earlier; infer_instance

/-- the send matching receive `rc` of rank `r`, as (part, send) on rank `rc.src` -/
def matchesRecv (r : Nat) (rc : Recv) (sd : Send) : Prop := sd.dst = r ∧ sd.tag = rc.tag
instance (r : Nat) (rc : Recv) (sd : Send) : Decidable (matchesRecv r rc sd) := by
  unfold matchesRecv; infer_instance

/-! The clauses, one definition each (all decidable).  `ps` = the parts of rank `r`. -/
namespace Cl
variable (P : Partition) (lvl : Nat → Nat → Nat) (round : Nat → Nat → Nat → Nat) (r : Nat)

/-- part ids are unique -/
abbrev pidsNodup : Prop := ((P.parts r).map (·.pid)).Nodup
/-- clause 6 (local edges): `needed_pids` name parts of this rank, of strictly lower level -/
abbrev needsOk : Prop :=
  ∀ p ∈ P.parts r, ∀ q ∈ p.needs, (∃ p' ∈ P.parts r, p'.pid = q) ∧ lvl r q < lvl r p.pid
/-- clause 6 (cross-rank edges): every receive has a sending part, of strictly lower level -/
abbrev recvOk : Prop :=
  ∀ p ∈ P.parts r, ∀ rc ∈ p.recvs,
    ∃ q ∈ P.parts rc.src, (∃ sd ∈ q.sends, matchesRecv r rc sd) ∧ lvl rc.src q.pid < lvl r p.pid
/-- clause 1: every output name is produced by exactly one part -/
abbrev outputsNodup : Prop := (allOutputs (P.parts r)).Nodup
/-- clause 1: overall outputs are produced by some part -/
abbrev overallProduced : Prop := ∀ n ∈ P.overall r, n ∈ allOutputs (P.parts r)
/-- clause 4: sent names are outputs of the sending part -/
abbrev sentAreOutputs : Prop := ∀ p ∈ P.parts r, ∀ sd ∈ p.sends, sd.name ∈ p.outputs
/-- clause 2: names read are user inputs, received by the same or an earlier part, or outputs
    of an earlier part -/
abbrev readsOk : Prop :=
  ∀ p ∈ P.parts r, ∀ n ∈ p.inputs,
    n ∈ P.user r
    ∨ (∃ q ∈ P.parts r, sameOrEarlier (P.parts r) q p ∧ n ∈ q.recvNames)
    ∨ (∃ q ∈ P.parts r, earlier (P.parts r) q p ∧ n ∈ q.outputs)
abbrev inputsNodup : Prop := ∀ p ∈ P.parts r, p.inputs.Nodup
/-- clause 3: received names are never part outputs -/
abbrev recvNotOutput : Prop := ∀ rc ∈ allRecvs (P.parts r), rc.name ∉ allOutputs (P.parts r)
abbrev recvNotUser : Prop := ∀ rc ∈ allRecvs (P.parts r), rc.name ∉ P.user r
abbrev recvNamesNodup : Prop := ((allRecvs (P.parts r)).map (·.name)).Nodup
abbrev outputNotUser : Prop := ∀ n ∈ allOutputs (P.parts r), n ∉ P.user r
/-- no part reads an overall output name (informative only since execute.py keeps overall
    outputs in the context; in no contract) -/
abbrev overallNotRead : Prop := ∀ n ∈ P.overall r, ∀ p ∈ P.parts r, n ∉ p.inputs
/-- clause 5: no communication nodes inside parts -/
abbrev partsPure : Prop := ∀ p ∈ P.parts r, p.pure = true
/-- one message per (src, dst, tag) -/
abbrev sendIdsNodup : Prop := ((allSends (P.parts r)).map fun sd => (sd.dst, sd.tag)).Nodup
abbrev recvIdsNodup : Prop := ((allRecvs (P.parts r)).map fun rc => (rc.src, rc.tag)).Nodup
/-- every send has a receive on the destination rank -/
abbrev sendHasRecv : Prop :=
  ∀ sd ∈ allSends (P.parts r), ∃ rc ∈ allRecvs (P.parts sd.dst), rc.src = r ∧ rc.tag = sd.tag
/-- clause 7: within a part all receives belong to one round and all sends to one later round.
    `round` is a function of (src, dst, tag) alone, hence agrees on both ends of a message. -/
abbrev roundsPart : Prop :=
  ∀ p ∈ P.parts r, ∀ rc ∈ p.recvs, ∀ sd ∈ p.sends, round rc.src r rc.tag < round r sd.dst sd.tag
abbrev roundsRecvSame : Prop :=
  ∀ p ∈ P.parts r, ∀ rc ∈ p.recvs, ∀ rc' ∈ p.recvs, round rc.src r rc.tag = round rc'.src r rc'.tag
abbrev roundsSendSame : Prop :=
  ∀ p ∈ P.parts r, ∀ sd ∈ p.sends, ∀ sd' ∈ p.sends, round r sd.dst sd.tag = round r sd'.dst sd'.tag
/-- clause 7: along `needed_pids` the rounds never go backwards -/
abbrev roundsOrder : Prop :=
  ∀ p ∈ P.parts r, ∀ q ∈ P.parts r, q.pid ∈ p.needs →
    (∀ sd ∈ q.sends, ∀ rc ∈ p.recvs, round r sd.dst sd.tag ≤ round rc.src r rc.tag)
    ∧ (∀ sd ∈ q.sends, ∀ sd' ∈ p.sends, round r sd.dst sd.tag < round r sd'.dst sd'.tag)

end Cl

/-- All clauses that concern rank `r`. -/
def WFRank (P : Partition) (lvl : Nat → Nat → Nat) (round : Nat → Nat → Nat → Nat) (r : Nat) : Prop :=
  Cl.pidsNodup P r ∧ Cl.needsOk P lvl r ∧ Cl.recvOk P lvl r ∧ Cl.outputsNodup P r
  ∧ Cl.overallProduced P r ∧ Cl.sentAreOutputs P r ∧ Cl.readsOk P r ∧ Cl.inputsNodup P r
  ∧ Cl.recvNotOutput P r ∧ Cl.recvNotUser P r ∧ Cl.recvNamesNodup P r
  ∧ Cl.partsPure P r ∧ Cl.sendIdsNodup P r ∧ Cl.recvIdsNodup P r
  ∧ Cl.sendHasRecv P r ∧ Cl.roundsPart P round r ∧ Cl.roundsRecvSame P round r
  ∧ Cl.roundsSendSame P round r ∧ Cl.roundsOrder P round r

set_option synthInstance.maxSize 2048 in
set_option synthInstance.maxHeartbeats 400000 in
instance instDecWFRank (P : Partition) (lvl : Nat → Nat → Nat) (round : Nat → Nat → Nat → Nat) (r : Nat) :
    Decidable (WFRank P lvl round r) := by
  unfold WFRank; infer_instance

/-- named clause report for the driver: which clause fails on which rank -/
def clauseReport (P : Partition) (lvl : Nat → Nat → Nat) (round : Nat → Nat → Nat → Nat) (r : Nat) :
    List (String × Bool) :=
  [("pids-nodup", decide (Cl.pidsNodup P r)), ("needs-ok", decide (Cl.needsOk P lvl r)),
   ("recv-ok", decide (Cl.recvOk P lvl r)), ("outputs-nodup", decide (Cl.outputsNodup P r)),
   ("overall-produced", decide (Cl.overallProduced P r)),
   ("sent-are-outputs", decide (Cl.sentAreOutputs P r)), ("reads-ok", decide (Cl.readsOk P r)),
   ("inputs-nodup", decide (Cl.inputsNodup P r)), ("recv-not-output", decide (Cl.recvNotOutput P r)),
   ("recv-not-user", decide (Cl.recvNotUser P r)), ("recv-names-nodup", decide (Cl.recvNamesNodup P r)),
   ("output-not-user", decide (Cl.outputNotUser P r)), ("overall-not-read", decide (Cl.overallNotRead P r)),
   ("parts-pure", decide (Cl.partsPure P r)), ("send-ids-nodup", decide (Cl.sendIdsNodup P r)),
   ("recv-ids-nodup", decide (Cl.recvIdsNodup P r)), ("send-has-recv", decide (Cl.sendHasRecv P r)),
   ("rounds-part", decide (Cl.roundsPart P round r)),
   ("rounds-recv-same", decide (Cl.roundsRecvSame P round r)),
   ("rounds-send-same", decide (Cl.roundsSendSame P round r)),
   ("rounds-order", decide (Cl.roundsOrder P round r))]

/-- well-formedness relative to given level and round functions -/
def WFwith (P : Partition) (lvl : Nat → Nat → Nat) (round : Nat → Nat → Nat → Nat) : Prop :=
  ∀ r, r < P.length → WFRank P lvl round r

instance (P : Partition) (lvl : Nat → Nat → Nat) (round : Nat → Nat → Nat → Nat) :
    Decidable (WFwith P lvl round) := by
  unfold WFwith; exact Nat.decidableBallLT _ _

/-- The contract: some level function and some round numbering make all clauses hold. -/
def WF (P : Partition) : Prop := ∃ lvl round, WFwith P lvl round

/-- The clauses the *executor* relies on (a subset of `WFRank`): C08's theorems need no more. -/
def WFexecRank (P : Partition) (lvl : Nat → Nat → Nat) (r : Nat) : Prop :=
  Cl.pidsNodup P r ∧ Cl.needsOk P lvl r ∧ Cl.recvOk P lvl r ∧ Cl.overallProduced P r
  ∧ Cl.sentAreOutputs P r ∧ Cl.readsOk P r

instance (P : Partition) (lvl : Nat → Nat → Nat) (r : Nat) : Decidable (WFexecRank P lvl r) := by
  unfold WFexecRank; infer_instance

def WFexecWith (P : Partition) (lvl : Nat → Nat → Nat) : Prop :=
  ∀ r, r < P.length → WFexecRank P lvl r

instance (P : Partition) (lvl : Nat → Nat → Nat) : Decidable (WFexecWith P lvl) := by
  unfold WFexecWith; exact Nat.decidableBallLT _ _

/-- What the executor needs of a partition: unique part ids; an acyclic part order in which
    every receive has a sender; overall outputs are produced; sent names are outputs of the
    sending part; every name read is a user input, received by the same or an
    earlier part, or an output of an earlier part. -/
def WFexec (P : Partition) : Prop := ∃ lvl, WFexecWith P lvl

/-! ## `checkWF`: certificate-producing checker -/

/-- all (rank, pid) pairs -/
def partNodes (P : Partition) : List (Nat × Nat) :=
  (List.range P.length).flatMap fun r => (P.parts r).map fun p => (r, p.pid)

/-- parts that must run before part `(r, pid)`: its `needed_pids` and the senders of its receives -/
def partDeps (P : Partition) (node : Nat × Nat) : List (Nat × Nat) :=
  ((P.parts node.1).filter fun p => decide (p.pid = node.2)).flatMap fun p =>
    p.needs.map (fun q => (node.1, q))
    ++ p.recvs.flatMap fun rc =>
        ((P.parts rc.src).filter fun q => q.sends.any fun sd => decide (matchesRecv node.1 rc sd)).map
          fun q => (rc.src, q.pid)

/-- level of a part = index of its batch when the part graph is peeled -/
def computeLvl (P : Partition) : Nat → Nat → Nat :=
  let nodes := partNodes P
  let B := peelB nodes (partDeps P) nodes.length []
  fun r pid => batchIndex B (r, pid)

/-- all communication ids (src, dst, tag) mentioned by the partition -/
def commNodes (P : Partition) : List (Nat × Nat × Nat) :=
  (List.range P.length).flatMap fun r =>
    (allSends (P.parts r)).map (fun sd => (r, sd.dst, sd.tag))
    ++ (allRecvs (P.parts r)).map (fun rc => (rc.src, r, rc.tag))

/-- a message sent by part `p` waits for every receive of `p` and of the parts before it -/
def commDeps (P : Partition) (c : Nat × Nat × Nat) : List (Nat × Nat × Nat) :=
  let ps := P.parts c.1
  (ps.filter fun p => p.sends.any fun sd => decide (sd.dst = c.2.1 ∧ sd.tag = c.2.2)).flatMap fun p =>
    (ps.filter fun q => decide (sameOrEarlier ps q p)).flatMap fun q =>
      q.recvs.map fun rc => (rc.src, c.1, rc.tag)

/-- communication round of a message = index of its batch -/
def computeRound (P : Partition) : Nat → Nat → Nat → Nat :=
  let nodes := commNodes P
  let B := peelB nodes (commDeps P) nodes.length []
  fun a b t => batchIndex B (a, b, t)

def checkWF (P : Partition) : Bool := decide (WFwith P (computeLvl P) (computeRound P))

def checkWFexec (P : Partition) : Bool := decide (WFexecWith P (computeLvl P))

/-- the clauses that are not part of `WFRank` -/
def nonWFClauses : List String := ["output-not-user", "overall-not-read"]

def execClauses : List String :=
  ["pids-nodup", "needs-ok", "recv-ok", "overall-produced", "sent-are-outputs", "reads-ok"]

/-- failing clauses, as (rank, clause name) -/
def failingClauses (P : Partition) : List (Nat × String) :=
  let lvl := computeLvl P
  let round := computeRound P
  (List.range P.length).flatMap fun r =>
    ((clauseReport P lvl round r).filter fun x => !x.2).map fun x => (r, x.1)

/-! ## `number_distributed_tags`: first-seen numbering over the gathered sequence -/

section Tags
variable {α : Type} [DecidableEq α]

def numberStep (acc : List (α × Nat) × Nat) (t : α) : List (α × Nat) × Nat :=
  if (acc.1.lookup t).isSome then acc else (acc.1 ++ [(t, acc.2)], acc.2 + 1)

/-- `(sym_tag_to_int_tag, next_tag)` from the per-rank tag tuples gathered on the root -/
def numberTags (base : Nat) (gathered : List (List α)) : List (α × Nat) × Nat :=
  gathered.flatten.foldl numberStep ([], base)

def intTag (m : List (α × Nat)) (t : α) : Option Nat := m.lookup t

end Tags

/-! ## the communication graph of a multi-rank program and its diagnosis (C10) -/

structure CommId where
  src : Nat
  dst : Nat
  tag : Nat
deriving DecidableEq, Repr

/-- a send on `rank`; `deps` = (src, tag) of the receives of `rank` its payload depends on -/
structure SendOp where
  rank : Nat
  dst : Nat
  tag : Nat
  deps : List (Nat × Nat)
deriving DecidableEq, Repr

structure RecvOp where
  rank : Nat
  src : Nat
  tag : Nat
deriving DecidableEq, Repr

structure CommGraph where
  sends : List SendOp
  recvs : List RecvOp
deriving Repr

def SendOp.id (s : SendOp) : CommId := ⟨s.rank, s.dst, s.tag⟩
def RecvOp.id (v : RecvOp) : CommId := ⟨v.src, v.rank, v.tag⟩
def SendOp.depIds (s : SendOp) : List CommId := s.deps.map fun d => ⟨d.1, s.rank, d.2⟩

def CommGraph.sendIds (g : CommGraph) : List CommId := g.sends.map (·.id)
def CommGraph.recvIds (g : CommGraph) : List CommId := g.recvs.map (·.id)

/-- keys of `comm_ids_to_needed_comm_ids` after the allreduce -/
def CommGraph.nodes (g : CommGraph) : List CommId :=
  g.sendIds ++ g.recvIds ++ g.sends.flatMap (·.depIds)

/-- `comm_ids_to_needed_comm_ids[c]` -/
def CommGraph.deps (g : CommGraph) (c : CommId) : List CommId :=
  (g.sends.filter fun s => decide (s.id = c)).flatMap (·.depIds)

/-- the dependency relation among communication operations admits a ranking -/
def Acyclic (g : CommGraph) : Prop :=
  ∃ lvl : CommId → Nat, ∀ s ∈ g.sends, ∀ d ∈ s.depIds, lvl d < lvl s.id

/-- a well-formed multi-rank computation -/
structure Valid (g : CommGraph) : Prop where
  noSelfSend : ∀ s ∈ g.sends, s.rank ≠ s.dst
  noSelfRecv : ∀ v ∈ g.recvs, v.rank ≠ v.src
  sendsNodup : g.sendIds.Nodup
  recvsNodup : g.recvIds.Nodup
  sendHasRecv : ∀ s ∈ g.sends, s.id ∈ g.recvIds
  recvHasSend : ∀ v ∈ g.recvs, v.id ∈ g.sendIds
  acyclic : Acyclic g

inductive Diag where
  | selfComm      -- NotImplementedError (self-send / self-receive)
  | dupSend       -- DuplicateSendError
  | dupRecv       -- DuplicateRecvError
  | cycle         -- CycleError
  | missingRecv   -- MissingRecvError: a send without a receive
  | missingSend   -- MissingSendError: a receive without a send
deriving DecidableEq, Repr

def Diag.name : Diag → String
  | .selfComm => "NotImplementedError" | .dupSend => "DuplicateSendError"
  | .dupRecv => "DuplicateRecvError" | .cycle => "CycleError"
  | .missingRecv => "MissingRecvError" | .missingSend => "MissingSendError"

/-- the clause of `Valid` a diagnostic class speaks about is violated -/
def Violates (g : CommGraph) : Diag → Prop
  | .selfComm => (∃ s ∈ g.sends, s.rank = s.dst) ∨ (∃ v ∈ g.recvs, v.rank = v.src)
  | .dupSend => ¬ g.sendIds.Nodup
  | .dupRecv => ¬ g.recvIds.Nodup
  | .cycle => ¬ Acyclic g
  | .missingRecv => ∃ s ∈ g.sends, s.id ∉ g.recvIds
  | .missingSend => ∃ v ∈ g.recvs, v.id ∉ g.sendIds

def hasSelf (g : CommGraph) : Bool :=
  g.sends.any (fun s => decide (s.rank = s.dst)) || g.recvs.any (fun v => decide (v.rank = v.src))

def cyclic (g : CommGraph) : Bool := !acyclicB g.nodes g.deps

/-- The union of what `find_distributed_partition` raises on any rank and what
    `verify_distributed_partition` raises on the root, in the order in which the real code
    reaches the checks: local gathering, global scheduling, part construction. -/
def diagnose (g : CommGraph) : Except Diag Unit :=
  if hasSelf g then .error .selfComm
  else if ¬ g.sendIds.Nodup then .error .dupSend
  else if ¬ g.recvIds.Nodup then .error .dupRecv
  else if cyclic g then .error .cycle
  else if g.sends.any (fun s => decide (s.id ∉ g.recvIds)) then .error .missingRecv
  else if g.recvs.any (fun v => decide (v.id ∉ g.sendIds)) then .error .missingSend
  else .ok ()

/-- every violated class (for the tie: a raised class must be one of these) -/
def violated (g : CommGraph) : List Diag :=
  (if hasSelf g then [Diag.selfComm] else [])
  ++ (if ¬ g.sendIds.Nodup then [Diag.dupSend] else [])
  ++ (if ¬ g.recvIds.Nodup then [Diag.dupRecv] else [])
  ++ (if cyclic g then [Diag.cycle] else [])
  ++ (if g.sends.any (fun s => decide (s.id ∉ g.recvIds)) then [Diag.missingRecv] else [])
  ++ (if g.recvs.any (fun v => decide (v.id ∉ g.sendIds)) then [Diag.missingSend] else [])

/-- communication batches of the program (levels of `_calculate_dependency_levels`) -/
def CommGraph.batches (g : CommGraph) : List (List CommId) :=
  (batchesOf g.nodes g.deps).map List.eraseDups

/-! ### what each rank does (model of the per-rank control flow; used by the tie only) -/

/-- classes rank `r` can raise while gathering its local sends / receives -/
def localErrs (g : CommGraph) (r : Nat) : List Diag :=
  let ss := g.sends.filter fun s => decide (s.rank = r)
  let vs := g.recvs.filter fun v => decide (v.rank = r)
  (if ss.any (fun s => decide (s.rank = s.dst)) || vs.any (fun v => decide (v.rank = v.src))
    then [Diag.selfComm] else [])
  ++ (if ¬ (ss.map (·.id)).Nodup then [Diag.dupSend] else [])
  ++ (if ¬ (vs.map (·.id)).Nodup then [Diag.dupRecv] else [])

/-- classes rank `r` can raise when it turns the global batches into local parts -/
def missingAt (g : CommGraph) (r : Nat) : List Diag :=
  (if g.nodes.any (fun c => decide (c.dst = r ∧ c ∉ (g.recvs.filter fun v => decide (v.rank = r)).map (·.id)))
    then [Diag.missingRecv] else [])
  ++ (if g.nodes.any (fun c => decide (c.src = r ∧ c ∉ (g.sends.filter fun s => decide (s.rank = r)).map (·.id)))
    then [Diag.missingSend] else [])

inductive RankOutcome where
  | raises (ds : List Diag)   -- raises one of these classes
  | blocked                   -- waits in a collective for a rank that raised
  | returns                   -- returns a partition
deriving Repr

/-- outcome of `find_distributed_partition` on rank `r` of `n` -/
def findOutcome (g : CommGraph) (n r : Nat) : RankOutcome :=
  if (List.range n).any (fun q => !(localErrs g q).isEmpty) then
    (if (localErrs g r).isEmpty then .blocked else .raises (localErrs g r))
  else if cyclic g then .raises [.cycle]
  else if (List.range n).any (fun q => !(missingAt g q).isEmpty) then
    (if (missingAt g r).isEmpty then .blocked else .raises (missingAt g r))
  else .returns

/-- what `verify_distributed_partition` raises on the root once every rank returned -/
def verifyOutcome (g : CommGraph) : List Diag :=
  (if ¬ g.recvIds.Nodup then [Diag.dupRecv] else [])
  ++ (if g.recvs.any (fun v => decide (v.id ∉ g.sendIds)) then [Diag.missingSend] else [])
  ++ (if g.sends.any (fun s => decide (s.id ∉ g.recvIds)) then [Diag.missingRecv] else [])

end Pt.Dist

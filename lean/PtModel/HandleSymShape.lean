/-
  PtModel.HandleSymShape — driver queries for the symbolic shape-inference model
  (`PtModel.SymShape`): `(symshape <kind> …)`.  Dims are printed in a CANONICAL
  affine form (constant; non-zero coefficients sorted by parameter name) so that
  the harness can compare them textually with the normalised dims of the real
  `.shape`.
-/
import PtModel.Sexp
import PtModel.SymShape
import PtModel.EinsumLower
namespace Pt

partial def parseAExprS : Sx → Option AExpr
  | .list [.atom "lit", n] => n.asInt?.map .lit
  | .list [.atom "param", .atom x] => some (.param x)
  | .list [.atom "add", a, b] => do some (.add (← parseAExprS a) (← parseAExprS b))
  | .list [.atom "sub", a, b] => do some (.sub (← parseAExprS a) (← parseAExprS b))
  | .list [.atom "scale", k, a] => do some (.scale (← k.asInt?) (← parseAExprS a))
  | _ => none

def parseSShape : Sx → Option Sym.SShape
  | .list ds => ds.mapM parseAExprS
  | _ => none

def parseQExpr : Sx → Option Sym.QExpr
  | .list [.atom "fdiv", a, k] => do some (.fdiv (← parseAExprS a) (← k.asInt?))
  | x => (parseAExprS x).map .aff

/-- canonical text of an affine normal form -/
def showAff (a : Aff) : String :=
  let cs := (a.coeffs.filter (·.2 ≠ 0)).toArray.qsort (fun p q => p.1 < q.1)
  "[" ++ toString a.const ++ String.join (cs.toList.map fun p => s!";{p.1}:{p.2}") ++ "]"

def showQ : Sym.QExpr → String
  | .aff a => showAff a.norm
  | .fdiv a k => s!"fdiv({showAff a.norm},{k})"

def showDims (ds : Sym.SShape) : String := "(" ++ " ".intercalate (ds.map fun d => showAff d.norm) ++ ")"
def showQDims (ds : List Sym.QExpr) : String := "(" ++ " ".intercalate (ds.map showQ) ++ ")"

def showOptDims : Option Sym.SShape → String
  | some ds => showDims ds
  | none => "none"

def parseSIdx : Sx → Option Sym.SIdx
  | .list [.atom "int", k] => k.asInt?.map .int
  | .list [.atom "slice", a, b, c] => do some (.slice (← a.asOptInt?) (← b.asOptInt?) (← c.asInt?))
  | _ => none

def showRefusal : Sym.Refusal → String
  | .zeroStep => "zero-step"
  | .explicitBoundOnSymbolicAxis => "explicit-bound-on-symbolic-axis"
  | .signUnknown => "sign-unknown"
  | .intOutOfBounds => "int-out-of-bounds"
  | .rankMismatch => "rank-mismatch"

def parseLettersS : Sx → Option (List Char)
  | .list ls => ls.mapM fun
    | .atom s => (match s.toList with | [c] => some c | _ => none)
    | _ => none
  | _ => none

def handleSymShape : List Sx → Option String
  | [.atom "norm", .list ds] => do some (showQDims (← ds.mapM parseQExpr))
  | [.atom "bcast", .list shapes] => do some (showOptDims (Sym.broadcast (← shapes.mapM parseSShape)))
  | [.atom "transpose", s, perm] => do some (showOptDims (Sym.transpose (← parseSShape s) (← perm.asNats?)))
  | [.atom "roll", s, axis] => do some (showOptDims (Sym.roll (← parseSShape s) (← axis.asNat?)))
  | [.atom "stack", .list shapes, axis] => do
    some (showOptDims (Sym.stack (← shapes.mapM parseSShape) (← axis.asNat?)))
  | [.atom "concat", .list shapes, axis] => do
    some (showOptDims (Sym.concat (← shapes.mapM parseSShape) (← axis.asNat?)))
  | [.atom "reduce", s, axes] => do
    let ax ← match axes with
      | .atom "None" => some none
      | x => x.asNats?.map some
    some (showOptDims (Sym.reduce (← parseSShape s) ax))
  | [.atom "full", s] => do some (showOptDims (Sym.full (← parseSShape s)))
  | [.atom "expand", s, .list axes] => do
    some (showOptDims (Sym.expandDims (← parseSShape s) (← axes.mapM Sx.asInt?)))
  | [.atom "bcastto", s, t] => do some (showOptDims (Sym.broadcastTo (← parseSShape s) (← parseSShape t)))
  | [.atom "pad", s, .list ws] => do
    let widths ← ws.mapM fun
      | .list [b, a] => do some ((← b.asNat?), (← a.asNat?))
      | _ => none
    some (showOptDims (Sym.pad (← parseSShape s) widths))
  | [.atom "einsum", .list ins, out, .list shapes] => do
    let insL ← ins.mapM parseLettersS
    let outL ← parseLettersS out
    some (showOptDims (Sym.einsum (Lower.einsumDescrs insL outL) (← shapes.mapM parseSShape) outL.length))
  | [.atom "index", s, .list ix] => do
    match Sym.index (← parseSShape s) (← ix.mapM parseSIdx) with
    | .ok ds => some (showQDims ds)
    | .error e => some ("refuse:" ++ showRefusal e)
  | _ => none

end Pt

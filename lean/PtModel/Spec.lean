/-
  PtModel.Spec — NumPy reference semantics of the index-remapping operations,
  written to be obviously right (each is one line on `Arr`).  Tied to the
  installed NumPy by the `specnp` correspondence batch.
-/
import PtModel.Basic
import PtModel.Slice
namespace Pt
namespace Spec

variable {α : Type}

/-- `numpy.roll(a, shift, axis)`: `out[..., j, ...] = a[..., (j - shift) mod n, ...]` -/
def roll (shift : Int) (axis : Nat) (a : Arr α) : Arr α :=
  ⟨a.shape, fun i =>
    a.get (i.set axis (pyMod ((i.getD axis 0 : Nat) - shift) (a.shape.getD axis 0 : Nat)).toNat)⟩

/-- `numpy.transpose(a, perm)`: `out.shape[k] = a.shape[perm[k]]`,
    `out[i] = a[j]` with `j[perm[k]] = i[k]`. -/
def transpose (perm : List Nat) (a : Arr α) : Arr α :=
  ⟨perm.map (a.shape.getD · 0), fun i =>
    a.get ((List.range perm.length).map fun d => i.getD (perm.idxOf d) 0)⟩

/-- `numpy.reshape(a, new, order="C")` -/
def reshapeC (new : Shape) (a : Arr α) : Arr α :=
  ⟨new, fun i => a.get (unravelC a.shape (ravelC new i))⟩

/-- `numpy.reshape(a, new, order="F")` -/
def reshapeF (new : Shape) (a : Arr α) : Arr α :=
  ⟨new, fun i => a.get (unravelF a.shape (ravelF new i))⟩

/-- `numpy.stack(as, axis)` for arrays of one common shape `s` -/
def stack (s : Shape) (axis : Nat) (as : List (Arr α)) (dflt : α) : Arr α :=
  ⟨(s.take axis) ++ [as.length] ++ (s.drop axis), fun i =>
    match as[i.getD axis 0]? with
    | some a => a.get (i.eraseIdx axis)
    | none => dflt⟩

/-- which operand, and which offset inside it, position `j` along the
    concatenation axis falls into -/
def concatLocate : List Nat → Nat → Option (Nat × Nat)
  | [], _ => none
  | n :: ns, j => if j < n then some (0, j) else
      (concatLocate ns (j - n)).map fun (k, o) => (k + 1, o)

/-- `numpy.concatenate(as, axis)` -/
def concatenate (axis : Nat) (as : List (Arr α)) (dflt : α) : Arr α :=
  let lens := as.map (·.shape.getD axis 0)
  let s0 := (as.head?.map (·.shape)).getD []
  ⟨s0.set axis lens.sum, fun i =>
    match concatLocate lens (i.getD axis 0) with
    | some (k, o) => (match as[k]? with
      | some a => a.get (i.set axis o)
      | none => dflt)
    | none => dflt⟩

/-- one component of a basic index -/
inductive BIdx where
  | int (k : Int)
  | slice (start stop : Option Int) (step : Int)
deriving Repr

/-- shape of `a[ix]` for a basic index with one entry per axis -/
def basicShape : Shape → List BIdx → Shape
  | _ :: ns, .int _ :: ix => basicShape ns ix
  | n :: ns, .slice st sp step :: ix =>
      (cpyLen (cpyAdjust st sp step n)).toNat :: basicShape ns ix
  | _, _ => []

/-- source index of `a[ix][i]` -/
def basicSrc : Shape → List BIdx → Idx → Idx
  | n :: ns, .int k :: ix, i => (if k < 0 then k + n else k).toNat :: basicSrc ns ix i
  | n :: ns, .slice st sp step :: ix, j :: i =>
      ((cpyAdjust st sp step n).start + step * j).toNat :: basicSrc ns ix i
  | _, _, _ => []

/-- NumPy basic indexing (ints and slices, one per axis) -/
def basicIndex (ix : List BIdx) (a : Arr α) : Arr α :=
  ⟨basicShape a.shape ix, fun i => a.get (basicSrc a.shape ix i)⟩

/-- index into an operand of shape `s` broadcast to rank `i.length`
    (NumPy broadcasting: right-aligned, length-1 axes pinned to 0) -/
def bcastIdx (s : Shape) (i : Idx) : Idx :=
  let i' := i.drop (i.length - s.length)
  (s.zip i').map fun (d, k) => if d = 1 then 0 else k

/-- `numpy.broadcast_to(a, shape)` -/
def broadcastTo (shape : Shape) (a : Arr α) : Arr α :=
  ⟨shape, fun i => a.get (bcastIdx a.shape i)⟩

end Spec
end Pt

/-
  ptdriver queries of the `raise` family.
    (raise <shape> <expr> ((name shape)…))  ->  canonical HLO text, or `unknown`
  HLO text:
    (full <lit>) | (binary OP <opd> <opd>) | (call f <opd>…) | (zeros_like name)
    | (where <opd> <opd> <opd>) | (broadcast name) | (logical_not name)
    | (reduce op name ((dim var)…))            -- axes in dimension order
  <opd> ::= (arr name) | (scalar <lit>)        <lit> ::= (int n) | (bool #t|#f) | (rat p q) | (nan)
  OP = the `BinaryOpType` member name (ADD, SUB, …, LESS, NOT_EQUAL).
-/
import PtModel.Sexp
import PtModel.Raise
namespace Pt
open Raise

def Raise.Operand.toSx : Operand → Sx
  | .arr n => .list [.atom "arr", .atom n]
  | .scalar c => .list [.atom "scalar", c.toSx]

def Raise.HLO.toSx : HLO → Sx
  | .full c => .list [.atom "full", c.toSx]
  | .binary op x1 x2 => .list [.atom "binary", .atom op.name, x1.toSx, x2.toSx]
  | .call f args => .list (.atom "call" :: .atom f :: args.map (·.toSx))
  | .zerosLike x => .list [.atom "zeros_like", .atom x]
  | .where_ c t e => .list [.atom "where", c.toSx, t.toSx, e.toSx]
  | .broadcast x => .list [.atom "broadcast", .atom x]
  | .logicalNot x => .list [.atom "logical_not", .atom x]
  | .reduce op x axes =>
    .list [.atom "reduce", .atom op.toWire, .atom x,
      .list (((axes.toArray.qsort fun a b => a.1 < b.1).toList).map fun (d, v) =>
        .list [.atom (toString d), .atom v])]

def handleRaise : List Sx → Option String
  | [shp, e, .list binds] => do
    let shape ← shp.asNats?
    let ex ← SExpr.ofSx e
    let bs ← binds.mapM fun
      | .list [.atom n, s] => do some (n, ← s.asNats?)
      | _ => none
    match Raise.raise ex shape bs with
    | some h => some h.toSx.toStr
    | none => some "unknown"
  | _ => none

end Pt

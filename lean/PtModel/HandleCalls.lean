/-
  ptdriver queries of the `calls` family (property C12), model `PtModel.CallsMulti`.

  TERM  (ph name) | (err) | (op f TERM…) | (res key #t|#f (param…) ((k TERM)…) ((name TERM)…))
  Queries
    (calls inline T) (calls tagall T) (calls inlineall T) (calls tagallstop T)   -> TERM
    (calls stats T)            -> "<callFree> <allTagged> <noTagged> <countCalls>"
    (calls trace #t|#f nargs (kw…) ((slot TERM)…) ((k TERM)…) key)   -> TERM  (traceCall)
    (calls direct ((slot TERM)…) ((k TERM)…) key)                    -> TERM  (getRet ∘ applyDirect)
    (calls params nargs (kw…))  -> (name…)     parameter names of the traced definition
    (calls tuple n)             -> (name…)     result names of an n-tuple, in position order
    (calls sorted n)            -> (name…)     the same names sorted as strings (the C12-E defect)
-/
import PtModel.Sexp
import PtModel.CallsMulti
namespace Pt
open CallsM

namespace CallsWire

partial def parseTerm : Sx → Option Term
  | .list [.atom "ph", .atom n] => some (.placeholder n)
  | .list [.atom "err"] => some .error
  | .list (.atom "op" :: .atom f :: args) => do some (.op f (← args.mapM parseTerm))
  | .list [.atom "res", .atom k, tg, .list ps, .list rets, .list bs] => do
    let tg ← match tg with | .atom "#t" => some true | .atom "#f" => some false | _ => none
    let ps ← ps.mapM Sx.asAtom?
    let pb (x : Sx) : Option (String × Term) := match x with
      | .list [.atom n, t] => do some (n, ← parseTerm t)
      | _ => none
    some (.result k tg ps (← rets.mapM pb) (← bs.mapM pb))
  | _ => none

def parseBinds (x : Sx) : Option Binds := do
  let xs ← x.asList?
  xs.mapM fun
    | .list [.atom n, t] => do some (n, ← parseTerm t)
    | _ => none

/-- insertion sort of an association list by key (stable) -/
def sortByKey {α : Type} : List (String × α) → List (String × α)
  | [] => []
  | a :: l => ins a (sortByKey l)
where ins (a : String × α) : List (String × α) → List (String × α)
  | [] => [a]
  | b :: l => if strLe a.1 b.1 then a :: b :: l else b :: ins a l

/-- canonical text: the parameter SET and the binding MAPPING are printed sorted by name
    (they are unordered in pytato); the returns keep their order (it is observable) -/
partial def showTerm : Term → String
  | .placeholder n => s!"(ph {n})"
  | .error => "(err)"
  | .op f args => "(op " ++ " ".intercalate (f :: args.map showTerm) ++ ")"
  | .result k tg ps rets bs =>
    let sb (l : Binds) := "(" ++ " ".intercalate (l.map fun (n, t) => s!"({n} {showTerm t})") ++ ")"
    s!"(res {k} {if tg then "#t" else "#f"} ({" ".intercalate (insSort strLe ps)}) {sb rets} {sb (sortByKey bs)})"

def showNames (l : List String) : String := "(" ++ " ".intercalate l ++ ")"
def bit (b : Bool) : String := if b then "1" else "0"

def argFn (args : Binds) : String → Term := fun s => (Calls.lookup args s).getD .error

end CallsWire

open CallsWire in
def handleCalls : List Sx → Option String
  | [.atom "inline", t] => do some (showTerm (CallsM.inline (← parseTerm t)))
  | [.atom "tagall", t] => do some (showTerm (tagAll (← parseTerm t)))
  | [.atom "inlineall", t] => do some (showTerm (inlineAll (← parseTerm t)))
  | [.atom "tagallstop", t] => do some (showTerm (tagAllStop (← parseTerm t)))
  | [.atom "stats", t] => do
    let t ← parseTerm t
    some s!"{bit (callFree t)} {bit (allTagged t)} {bit (noTagged t)} {countCalls t}"
  | [.atom "trace", tg, nargs, .list kws, args, tmpl, .atom k] => do
    let tg ← match tg with | .atom "#t" => some true | .atom "#f" => some false | _ => none
    let kws ← kws.mapM Sx.asAtom?
    some (showTerm (traceCall tg (← nargs.asNat?) kws (argFn (← parseBinds args)) (← parseBinds tmpl) k))
  | [.atom "direct", args, tmpl, .atom k] => do
    some (showTerm (getRet (applyDirect (argFn (← parseBinds args)) (← parseBinds tmpl)) k))
  | [.atom "params", nargs, .list kws] => do
    some (showNames (Calls.traceParams (← nargs.asNat?) (← kws.mapM Sx.asAtom?)))
  | [.atom "tuple", n] => do some (showNames ((List.range (← n.asNat?)).map tupleName))
  | [.atom "sorted", n] => do
    some (showNames (insSort strLe ((List.range (← n.asNat?)).map tupleName)))
  | _ => none

end Pt

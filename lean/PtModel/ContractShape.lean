/-
  PtModel.ContractShape — the SHAPE rules of `pt.matmul`, `pt.dot`, `pt.vdot` and
  `pt.pad` as /repo's code decides them (`pytato/array.py: matmul, dot, vdot,
  _check_contraction_lengths`; `pytato/pad.py`).  `none` = the real code raises.

  * matmul: 0-d operands refused; the contracted axes (last of `x1`; second-to-last
    of `x2`, or its only one) must have EQUAL lengths — a contracted axis of length
    1 is not stretched; 1-d @ 1-d is a sum; 1-d @ N-d goes through `dot`; N-d @ 1-d
    and the general case are einsums whose batch letters align from the RIGHT and
    broadcast (incl. stretching of length 1).
  * dot: the same contraction check when both operands have an axis; then
    1-d·1-d, 2-d·2-d (= matmul), a 0-d operand (= product), `b` 1-d, general.
  * vdot: operands of rank > 1 are ravelled; a 0-d with a 1-d operand needs length
    1; then `dot`.
  * pad: one (before, after) pair per axis, both non-negative.
-/
import PtModel.Shape
namespace Pt
namespace Contract

def lastD (s : List Nat) : Nat := s.getD (s.length - 1) 0
def last2D (s : List Nat) : Nat := s.getD (s.length - 2) 0

/-- `_check_contraction_lengths`: `x1.shape[-1]` vs `x2.shape[-2]` (or `x2.shape[0]`) -/
def contractionOk (s1 s2 : List Nat) : Bool :=
  lastD s1 == (if s2.length ≥ 2 then last2D s2 else s2.getD 0 0)

/-- `pt.matmul(x1, x2)` -/
def matmulShape (s1 s2 : List Nat) : Option (List Nat) :=
  if s1.length = 0 ∨ s2.length = 0 then none
  else if ¬ contractionOk s1 s2 then none
  else if s1.length = 1 ∧ s2.length = 1 then some []
  else if s1.length = 1 then some (s2.take (s2.length - 2) ++ [lastD s2])
  else if s2.length = 1 then some (s1.take (s1.length - 1))
  else (ptBroadcast [s1.take (s1.length - 2), s2.take (s2.length - 2)]).map
      (· ++ [last2D s1, lastD s2])

/-- `pt.dot(a, b)` -/
def dotShape (a b : List Nat) : Option (List Nat) :=
  if a.length ≥ 1 ∧ b.length ≥ 1 ∧ ¬ contractionOk a b then none
  else if a.length = 1 ∧ b.length = 1 then some []
  else if a.length = 2 ∧ b.length = 2 then matmulShape a b
  else if a.length = 0 ∨ b.length = 0 then ptBroadcast [a, b]
  else if b.length = 1 then some (a.take (a.length - 1))
  else some (a.take (a.length - 1) ++ b.take (b.length - 2) ++ [lastD b])

/-- `a.reshape(-1)` for rank > 1 -/
def ravel (s : List Nat) : List Nat := if s.length > 1 then [s.prod] else s

/-- `pt.vdot(a, b)` -/
def vdotShape (a b : List Nat) : Option (List Nat) :=
  let a' := ravel a
  let b' := ravel b
  if a'.length ≠ b'.length then
    (if (if a'.length = 0 then b' else a').getD 0 0 = 1 then some [] else none)
  else dotShape a' b'

/-- `pt.pad(a, widths)` with one (before, after) pair per axis -/
def padShape (s : List Nat) (widths : List (Int × Int)) : Option (List Nat) :=
  if widths.length ≠ s.length then none
  else if widths.any (fun p => decide (p.1 < 0) || decide (p.2 < 0)) then none
  else some ((s.zip widths).map fun p => p.1 + p.2.1.toNat + p.2.2.toNat)

end Contract
end Pt

/-
  PtModel.Tables — the table-level premises of C13 / C20 as executable Boolean
  checks over the regenerated tables (`PtGen.Children`).  Pure list/string
  functions, so that `decide +kernel` can evaluate them (no Mathlib).

  A row may be excused ONLY by a statement-level scope exclusion (function
  bodies for mappers documented not to enter them; documented per-kind
  semantics such as "data wrappers are equal only when identical") or by a row
  rendered from the committed known_findings.json.
-/
namespace Pt.Tables

def look {β : Type} (k : String) : List (String × β) → Option β
  | [] => none
  | (a, b) :: r => if a == k then some b else look k r

/-! ## C13: children tables -/

structure ChildrenTables where
  /-- probe kind ↦ stored array-valued edges `(label, class)` (reflective walk) -/
  arrayEdges : List (String × List (String × String))
  /-- probe kind ↦ node class name -/
  kindClass : List (String × String)
  /-- (mapper, probe kind, labels recursed into) -/
  mapperKinds : List (String × String × List String)
  /-- mapper-based function ↦ the mapper class it runs -/
  mapperAlias : List (String × String)
  /-- mappers documented not to enter function bodies -/
  skipsFunctionBodies : List String
  /-- (mapper, node class, edge class) excused by documented semantics -/
  documentedExclusions : List (String × String × String)
  /-- (mapper | "ALL", node class | "IndexBase", edge class) from known_findings.json -/
  knownMisses : List (String × String × String)
  /-- mappers whose omission of an edge is covered by an "ALL" known row -/
  aggregated : List String

def ChildrenTables.edgesOf (t : ChildrenTables) (k : String) : List (String × String) :=
  (look k t.arrayEdges).getD []

def ChildrenTables.classOf (t : ChildrenTables) (k : String) : String :=
  (look k t.kindClass).getD k

def ChildrenTables.aliasOf (t : ChildrenTables) (m : String) : String :=
  (look m t.mapperAlias).getD m

/-- the three index node classes share one `_map_index_base` in every mapper -/
def indexFamily (c : String) : String :=
  if c == "BasicIndex" || c == "AdvancedIndexInContiguousAxes"
      || c == "AdvancedIndexInNoncontiguousAxes" then "IndexBase" else c

/-- what the *statement* exempts -/
def ChildrenTables.scopeExcluded (t : ChildrenTables) (m k ec : String) : Bool :=
  ((t.skipsFunctionBodies.contains m || t.skipsFunctionBodies.contains (t.aliasOf m))
      && (ec == "function" || ec == "ret"))
    || t.documentedExclusions.contains (t.aliasOf m, t.classOf k, ec)

def ChildrenTables.known (t : ChildrenTables) (m k ec : String) : Bool :=
  t.knownMisses.contains (t.aliasOf m, t.classOf k, ec)
    || (t.aggregated.contains (t.aliasOf m)
        && t.knownMisses.contains ("ALL", indexFamily (t.classOf k), ec))

/-- every expected edge of the row's kind was recursed into -/
def ChildrenTables.rowComplete (t : ChildrenTables) (useKnown : Bool)
    (r : String × String × List String) : Bool :=
  (t.edgesOf r.2.1).all fun e =>
    t.scopeExcluded r.1 r.2.1 e.2 || (useKnown && t.known r.1 r.2.1 e.2) || r.2.2.contains e.1

/-- nothing a mapper recursed into is something other than a stored edge of the node
    (labels are produced from the stored/derived edge list, so this guards the translator) -/
def ChildrenTables.complete (t : ChildrenTables) (useKnown : Bool) : Bool :=
  t.mapperKinds.all (t.rowComplete useKnown)

/-! ## C20: users / predecessors tables -/

structure UsersTables where
  impls : List String
  /-- (implementation, probe kind, edges reported — with multiplicity) -/
  usersEdges : List (String × String × List String)
  /-- (implementation, probe kind, exception) -/
  usersUnsupported : List (String × String × String)
  /-- (probe kind, label, edge class) of every edge some implementation reports -/
  usersLabels : List (String × String × String)
  kindClass : List (String × String)
  /-- (node class, edge class, pattern) from known_findings.json; pattern: per implementation
      0 = not reported, 1 = reported, 2 = raises on this kind -/
  known : List (String × String × List Nat)
  /-- (implementation, node class) known to raise -/
  knownRaises : List (String × String)

def UsersTables.classOf (t : UsersTables) (k : String) : String :=
  (look k t.kindClass).getD k

def UsersTables.row (t : UsersTables) (impl kind : String) : Option (List String) :=
  (t.usersEdges.find? fun r => r.1 == impl && r.2.1 == kind).map (·.2.2)

def UsersTables.pattern (t : UsersTables) (kind label : String) : List Nat :=
  t.impls.map fun impl =>
    match t.row impl kind with
    | none => 2
    | some ls => if ls.contains label then 1 else 0

def UsersTables.mults (t : UsersTables) (kind label : String) : List Nat :=
  t.impls.filterMap fun impl =>
    if impl == "UsersCollector" then none          -- a set: no multiplicity promised
    else (t.row impl kind).map fun ls => ls.count label

def allEq : List Nat → Bool
  | [] => true
  | a :: r => r.all (· == a)

/-- the three implementations agree on the edge (and the two list-valued ones on its multiplicity) -/
def UsersTables.agree (t : UsersTables) (x : String × String × String) : Bool :=
  (t.pattern x.1 x.2.1).all (· == 1) && allEq (t.mults x.1 x.2.1)

def UsersTables.rowOk (t : UsersTables) (useKnown : Bool) (x : String × String × String) : Bool :=
  t.agree x || (useKnown && t.known.contains (t.classOf x.1, x.2.2, t.pattern x.1 x.2.1))

def UsersTables.raisesOk (t : UsersTables) (useKnown : Bool) (x : String × String × String) : Bool :=
  useKnown && t.knownRaises.contains (x.1, t.classOf x.2.1)

def UsersTables.agreeAll (t : UsersTables) (useKnown : Bool) : Bool :=
  t.usersLabels.all (t.rowOk useKnown) && t.usersUnsupported.all (t.raisesOk useKnown)

end Pt.Tables

/-
  PtModel.Einsum — reference semantics of `pytato.array.Einsum` (explicit mode)
  over exact rationals, and the pointwise array operations the distributive-law
  rewrite (C06) moves across einsums.  Mathlib-free and executable.

  An operand's access descriptor lists, per operand axis, the einsum axis it
  is accessed with: `.elem k` = output axis `k` (`EinsumElementwiseAxis(k)`),
  `.red k` = reduction axis `k` (`EinsumReductionAxis(k)`).  The length of an
  einsum axis comes from the operands (`_get_einsum_access_descr_to_axis_len`);
  an operand axis whose length differs from the einsum axis' length (it is then 1)
  is a broadcast-unit axis: its index is pinned to 0 (`map_einsum` in
  lower_to_index_lambda.py).  The value at output index `i` is the sum over all
  reduction-index tuples of the product of the operands' elements.
-/
import PtModel.Basic
namespace Pt

inductive EAxis where
  | elem (k : Nat)
  | red (k : Nat)
deriving DecidableEq, Repr

/-- sum / product of a list of rationals (right folds, so that `cons` unfolds) -/
def sumL : List Rat → Rat
  | [] => 0
  | x :: xs => x + sumL xs

def prodL : List Rat → Rat
  | [] => 1
  | x :: xs => x * prodL xs

namespace Arr

/-- pointwise operations; the result has the shape of the (first) array operand -/
def add (a b : Arr Rat) : Arr Rat := ⟨a.shape, fun i => a.get i + b.get i⟩
def sub (a b : Arr Rat) : Arr Rat := ⟨a.shape, fun i => a.get i - b.get i⟩
/-- `c * x` -/
def smul (c : Rat) (a : Arr Rat) : Arr Rat := ⟨a.shape, fun i => c * a.get i⟩
/-- `x * c` -/
def muls (a : Arr Rat) (c : Rat) : Arr Rat := ⟨a.shape, fun i => a.get i * c⟩
/-- `x / c` -/
def sdiv (a : Arr Rat) (c : Rat) : Arr Rat := ⟨a.shape, fun i => a.get i / c⟩
/-- `c / x` -/
def sdivl (c : Rat) (a : Arr Rat) : Arr Rat := ⟨a.shape, fun i => c / a.get i⟩

end Arr

namespace Spec

/-- one step of `_get_einsum_access_descr_to_axis_len`: record the length `n` of
    an operand axis accessed as `ax` (first length seen; a seen length of 1 is
    replaced by a different later one; a later 1 is a broadcast) -/
def axisLenStep (tbl : List (EAxis × Nat)) (ax : EAxis) (n : Nat) : List (EAxis × Nat) :=
  match tbl.find? (·.1 == ax) with
  | none => tbl ++ [(ax, n)]
  | some (_, seen) =>
    if seen = n then tbl
    else if n = 1 then tbl
    else tbl.map fun (a, m) => if a == ax then (a, n) else (a, m)

/-- `_get_einsum_access_descr_to_axis_len` -/
def axisLenTable (descrs : List (List EAxis)) (shapes : List Shape) : List (EAxis × Nat) :=
  (descrs.zip shapes).foldl
    (fun tbl (d, s) => (d.zip s).foldl (fun tbl (ax, n) => axisLenStep tbl ax n) tbl) []

/-- length of an einsum axis (1 for an axis no operand mentions) -/
def axisLen (tbl : List (EAxis × Nat)) (ax : EAxis) : Nat :=
  ((tbl.find? (·.1 == ax)).map (·.2)).getD 1

/-- number of reduction axes: one more than the largest reduction id -/
def numRed (descrs : List (List EAxis)) : Nat :=
  (descrs.flatMap id).foldl (fun m ax => match ax with | .red k => max m (k + 1) | .elem _ => m) 0

/-- the index at which an operand of shape `s` with descriptor `d` is read, for
    output index `i` and reduction index `r` -/
def operandIdx (tbl : List (EAxis × Nat)) (d : List EAxis) (s : Shape) (i r : Idx) : Idx :=
  (d.zip s).map fun (ax, n) =>
    if n ≠ axisLen tbl ax then 0
    else match ax with
      | .elem k => i.getD k 0
      | .red k => r.getD k 0

/-- the product of the operands' elements for one (output, reduction) index pair -/
def einsumTerm (tbl : List (EAxis × Nat)) (descrs : List (List EAxis)) (args : List (Arr Rat))
    (i r : Idx) : Rat :=
  prodL ((descrs.zip args).map fun (d, a) => a.get (operandIdx tbl d a.shape i r))

/-- `pytato.Einsum(access_descriptors, args)` with `nout` output axes -/
def einsum (descrs : List (List EAxis)) (nout : Nat) (args : List (Arr Rat)) : Arr Rat :=
  let tbl := axisLenTable descrs (args.map (·.shape))
  let redShape : Shape := (List.range (numRed descrs)).map fun k => axisLen tbl (.red k)
  ⟨(List.range nout).map fun k => axisLen tbl (.elem k),
   fun i => sumL ((allIdx redShape).map fun r => einsumTerm tbl descrs args i r)⟩

/-! ### `rewrite_einsums_with_no_broadcasts` for one einsum
    (`EinsumWithNoBroadcastsRewriter.map_einsum` / `_squeeze_axes`) -/

/-- the (axis, length) pairs of an operand that are NOT broadcast-unit axes -/
def keptPairs (tbl : List (EAxis × Nat)) (d : List EAxis) (s : Shape) : List (EAxis × Nat) :=
  (d.zip s).filter fun p => p.2 = axisLen tbl p.1

/-- the index into the original operand: `0` on squeezed axes (mask entry
    `false`), the next entry of the squeezed operand's index otherwise -/
def expandIdx : List Bool → Idx → Idx
  | [], _ => []
  | true :: m, j => j.headD 0 :: expandIdx m j.tail
  | false :: m, j => 0 :: expandIdx m j

/-- `_squeeze_axes`: `a[..., 0, ...]` with `0` on the broadcast-unit axes -/
def squeezeOperand (tbl : List (EAxis × Nat)) (d : List EAxis) (a : Arr Rat) : Arr Rat :=
  ⟨(keptPairs tbl d a.shape).map (·.2),
   fun j => a.get (expandIdx ((d.zip a.shape).map fun p => decide (p.2 = axisLen tbl p.1)) j)⟩

/-- the rewritten access descriptors and operands -/
def noBroadcastEinsum (descrs : List (List EAxis)) (args : List (Arr Rat)) :
    List (List EAxis) × List (Arr Rat) :=
  let tbl := axisLenTable descrs (args.map (·.shape))
  ((descrs.zip args).map (fun p => (keptPairs tbl p.1 p.2.shape).map (·.1)),
   (descrs.zip args).map (fun p => squeezeOperand tbl p.1 p.2))

end Spec
end Pt

/-
  PtModel.Pad — model of `pytato.pad` in constant mode
  (`pytato/pad.py: _get_constant_padded_idx_lambda`, which builds its
  `IndexLambda` directly) and NumPy's `np.pad(…, mode="constant")`.

  The expression is the subscript `in_0[_0 - before_0, …]` wrapped, for the axes
  0, 1, … in this order (so the LAST axis' conditionals are outermost), in
      If(_d < before_d, cval0_d, If(_d >= bound_d, cval1_d, ·))
  where `bound_d` is the literal `axis_len_d + before_d` for a constant axis
  length, or a variable naming a 0-d binding (`UniqueNameGenerator` based on
  "in_0": `in_1`, `in_2`, …) holding `axis_len_d + before_d` for a symbolic one.
-/
import PtModel.Scalar
import PtModel.Lower
import PtModel.Names
namespace Pt

/-- per axis: (before, after), (cval0, cval1), upper-guard expression -/
abbrev PadItem := (Nat × Nat) × (SExpr × SExpr) × SExpr

namespace Lower

/-- the conditionals of axis `d` around `acc` -/
def padGuard (d : Nat) (it : PadItem) (acc : SExpr) : SExpr :=
  .ite (.cmp .lt (ivar d) (.int it.1.1)) it.2.1.1
    (.ite (.cmp .ge (ivar d) it.2.2) it.2.1.2 acc)

/-- the loop over the axes `d, d+1, …`, wrapping outward -/
def padWrap : Nat → List PadItem → SExpr → SExpr
  | _, [], acc => acc
  | d, it :: rest, acc => padWrap (d + 1) rest (padGuard d it acc)

/-- `in_0[_0 - before_0, _1 - before_1, …]` -/
def padSubscript (widths : List (Nat × Nat)) : SExpr :=
  .sub "in_0" ((List.range widths.length).map fun d => subConst (ivar d) (widths.getD d (0, 0)).1)

/-- `_get_constant_padded_idx_lambda(...).expr` -/
def padExpr (widths : List (Nat × Nat)) (cvals : List (SExpr × SExpr)) (bounds : List SExpr) : SExpr :=
  padWrap 0 (widths.zip (cvals.zip bounds)) (padSubscript widths)

/-- names of the bindings holding the symbolic upper bounds:
    `vng = UniqueNameGenerator(); vng.add_name("in_0"); vng("in_0")`, … -/
def padBoundNames (nsym : Nat) : Option (List String) :=
  ((NameGen.mk ["in_0"] []).genMany (List.replicate nsym "in_0")).map (·.1)

/-- the upper-guard expressions: `axis_len + before` as a literal for a constant
    axis length (`some n`), the next binding name for a symbolic one (`none`) -/
def padBoundsFrom : List (Option Nat) → List (Nat × Nat) → List String → Option (List SExpr)
  | [], _, _ => some []
  | some n :: ls, w :: ws, names => (padBoundsFrom ls ws names).map (.int ((n + w.1 : Nat) : Int) :: ·)
  | none :: ls, _ :: ws, nm :: names => (padBoundsFrom ls ws names).map (.var nm :: ·)
  | _, _, _ => none

def padBounds (lens : List (Option Nat)) (widths : List (Nat × Nat)) : Option (List SExpr) :=
  (padBoundNames (lens.filter (·.isNone)).length).bind fun names => padBoundsFrom lens widths names

/-- the whole rule: axis lengths (`none` = symbolic), pad widths, constants -/
def pad (lens : List (Option Nat)) (widths : List (Nat × Nat)) (cvals : List (SExpr × SExpr)) :
    Option SExpr :=
  (padBounds lens widths).map fun bounds => padExpr widths cvals bounds

end Lower

namespace Spec

/-- NumPy pads axis after axis, each axis over the full (already padded) extent
    of the earlier axes: the value at a point is the constant of the LAST axis
    in whose pad area it lies, the original element otherwise.  `dflt` is the
    value decided by the axes before. -/
def padSel : List ((Nat × Nat) × (Val × Val)) → List Nat → Idx → Val → Val
  | (w, cv) :: ws, n :: ns, x :: xs, dflt =>
    padSel ws ns xs (if x < w.1 then cv.1 else if n + w.1 ≤ x then cv.2 else dflt)
  | _, _, _, dflt => dflt

/-- `numpy.pad(a, widths, mode="constant", constant_values=cvs)` -/
def padConst (widths : List (Nat × Nat)) (cvs : List (Val × Val)) (a : Arr Val) : Arr Val :=
  ⟨(a.shape.zip widths).map fun p => p.1 + p.2.1 + p.2.2,
   fun i => padSel (widths.zip cvs) a.shape i (a.get ((i.zip widths).map fun p => p.1 - p.2.1))⟩

end Spec
end Pt

/-
  PtModel.PyGen — model of `NumpyCodegenMapper` / `generate_numpy_like`
  (pytato/target/python/numpy_like.py): per node kind the Python expression that
  is emitted, one assignment per node in dependency order, temporaries from the
  `UniqueNameGenerator` model (`PtModel.Names`), the final dictionary of outputs.

  The graph is a heap of `PGNode`s (objects numbered by `id()` in post-order, as
  for C13/C05): children strictly below parents.

  Three kinds of answer, never confused:
  * `.ok`           — the emitted program;
  * `.refuse why`   — the real generator raises a not-supported error
                      (`NotImplementedError`, `UnknownIndexLambdaExpr`);
  * `.unmodelled w` — the graph is outside the modelled fragment (symbolic
                      shapes, complex constants, ambiguous literal annotations…):
                      the model says nothing and the harness counts these.
-/
import PtModel.PyAst
import PtModel.Raise
import PtModel.Names
import PtModel.Slice
namespace Pt
namespace Py

/-! ## dtypes, abstractly -/

structure DType where
  /-- `np.dtype.name`, e.g. `float32` -/
  name : String
  /-- `dtype.type.__name__` (what the generator writes after `np.`), e.g. `float32`, `bool` -/
  tyname : String
  /-- `dtype.kind` -/
  kind : String
deriving Repr, DecidableEq, Inhabited

/-- `dtype == np.dtype(float)` -/
def DType.isDefaultFloat (d : DType) : Bool := d.name == "float64"

/-! ## scalar operands -/

inductive NumClass where
  | finite | nan | posinf | neginf
deriving Repr, DecidableEq, Inhabited

/-- everything `_rec_ary_or_constant` / `_constant` look at in a scalar -/
structure ScalarForm where
  /-- a typed NumPy scalar (`np.generic`) rather than a Python scalar -/
  isNp : Bool
  /-- a Python `complex` -/
  isComplex : Bool
  /-- `np.floating` -/
  isNpFloating : Bool
  /-- `bool` / `np.bool_` (never given a sign) -/
  isBool : Bool
  /-- `dtype.name` of a typed scalar -/
  dtname : String
  cls : NumClass
  /-- `value < 0`, or `-0.0` -/
  negative : Bool
  /-- how `ast.unparse` spells the constant's magnitude -/
  text : String
deriving Repr, Inhabited

/-- annotation of one scalar literal of an index lambda -/
structure ScalarInfo where
  /-- the literal as it occurs in the (cast-free) expression -/
  lit : SExpr
  asIs : ScalarForm
  /-- `np.result_type(other.dtype, e)` (name, kind) when the other operand is an array: an ORACLE
      (NumPy's promotion table is not re-derived) -/
  rt : Option (String × String)
  /-- `expr.dtype.type(e)` -/
  typed : Option ScalarForm
deriving Repr, Inhabited

/-- Python's unary minus on a value -/
def negate : Val → Val
  | .i n => .i (-n)
  | .q r => .q (-r)
  | v => v

/-- `_constant(value)`: a negative constant is a unary minus applied to its magnitude -/
def constantOf (f : ScalarForm) (v : Val) : PyExpr :=
  if !f.isBool && f.negative then .neg (.num f.text (negate v)) else .num f.text v

/-- `_rec_ary_or_constant(e)` for a scalar `e` of value `v` -/
def emitScalar (f : ScalarForm) (v : Val) : PyExpr :=
  match f.cls with
  | .nan =>
    if f.isNp then .call (.attr (.name "np") f.dtname) [.str "nan"] []
    else .call (.name (if f.isComplex then "complex" else "float")) [.str "nan"] []
  | .posinf =>
    if f.isNpFloating then .call (.attr (.name "np") f.dtname) [.str "inf"] []
    else constantOf f v
  | .neginf =>
    if f.isNpFloating then .neg (.call (.attr (.name "np") f.dtname) [.str "inf"] [])
    else constantOf f v
  | .finite => constantOf f v

/-! ## graphs -/

inductive PIdx where
  | int (k : Int)
  | slice (s : NSlice)
  | arr (child : Nat)
deriving Repr, Inhabited

/-- einsum axis descriptor: elementwise axis `k` of the output, or reduction axis `k` -/
inductive EDescr where
  | elem (k : Nat)
  | redn (k : Nat)
deriving Repr, DecidableEq, Inhabited

inductive PNode where
  | placeholder (name : String)
  | dataWrapper (name : Option String)
  | sizeParam (name : String)
  | indexLambda (dt : DType) (e : SExpr) (binds : List (String × Nat)) (lits : List ScalarInfo)
  | roll (c : Nat) (shift : Int) (axis : Int)
  | perm (c : Nat) (p : List Nat)
  | reshape (c : Nat) (order : String)
  | stack (cs : List Nat) (axis : Int)
  | concat (cs : List Nat) (axis : Int)
  /-- `BasicIndex`, `AdvancedIndexInContiguousAxes` -/
  | index (c : Nat) (ix : List PIdx)
  /-- `AdvancedIndexInNoncontiguousAxes` -/
  | indexNC (c : Nat) (ix : List PIdx)
  | einsum (descr : List (List EDescr)) (cs : List Nat)
  /-- `NamedArray`: the entry of its container it names -/
  | alias (c : Nat)
  | dict (items : List (String × Nat))
  /-- a kind the target refuses (`CSRMatmul`, …) -/
  | refused (kind : String)
  /-- a kind outside the model -/
  | other (kind : String)
deriving Repr, Inhabited

structure PGNode where
  node : PNode
  /-- static shape; `none` = an array-valued (symbolic) component -/
  shape : List (Option Nat)
deriving Repr, Inhabited

abbrev PGraph := Array PGNode

def PGraph.get (g : PGraph) (i : Nat) : PGNode :=
  match g[i]? with
  | some n => n
  | none => { node := .other "out-of-range", shape := [] }

def staticShape (s : List (Option Nat)) : Option Shape := s.mapM id

/-! ## results -/

inductive Gen (α : Type) where
  | ok (a : α)
  | refuse (why : String)
  | unmodelled (why : String)
deriving Repr

def Gen.bind {α β : Type} (x : Gen α) (f : α → Gen β) : Gen β :=
  match x with
  | .ok a => f a
  | .refuse w => .refuse w
  | .unmodelled w => .unmodelled w

instance : Monad Gen where
  pure := .ok
  bind := Gen.bind

def Gen.ofOption {α : Type} (w : String) : Option α → Gen α
  | some a => .ok a
  | none => .unmodelled w

/-- emitter state: name generator, memo (node ↦ name), statements (latest first), argument names -/
structure St where
  ng : NameGen
  memo : List (Nat × String)
  lines : List PyStmt
  args : List String
deriving Inhabited

def St.fresh (s : St) (base : String) : Gen (String × St) :=
  match s.ng.gen base with
  | some (n, g) => .ok (n, { s with ng := g })
  | none => .unmodelled "name generator exhausted"

def St.record (s : St) (lhs : String) (rhs : PyExpr) : St :=
  { s with lines := .assign lhs rhs :: s.lines }

/-! ## per-kind expressions (given the names of the children) -/

def npf (f : String) : PyExpr := .attr (.name "_pt_np") f

def intConst (k : Int) : PyExpr :=
  if k < 0 then .neg (.num (toString (-k)) (.i (-k))) else .num (toString k) (.i k)

def shapeTuple (s : Shape) : PyExpr := .tuple (s.map fun d => intConst (d : Nat))

def dtypeKw (dt : DType) : String × PyExpr := ("dtype", .attr (.name "np") dt.tyname)

def isOneLit : SExpr → Bool
  | .int n => n == 1
  | .rat p q => p == 1 && q == 1
  | .bool b => b
  | _ => false

def isZeroLit : SExpr → Bool
  | .int n => n == 0
  | .rat p _ => p == 0
  | .bool b => !b
  | _ => false

def litEq : SExpr → SExpr → Bool
  | .int a, .int b => a == b
  | .rat a b, .rat c d => a == c && b == d
  | .bool a, .bool b => a == b
  | .nan, .nan => true
  | _, _ => false

def findLit (lits : List ScalarInfo) (c : SExpr) : Option ScalarInfo :=
  lits.find? fun i => litEq i.lit c

def MISMATCHED_C99 : List (String × String) :=
  [("asin", "arcsin"), ("acos", "arccos"), ("atan", "arctan"), ("atan2", "arctan2")]

/-- `_c99_callop_numpy_name` -/
def c99NumpyName (f : String) : String :=
  match MISMATCHED_C99.find? (·.1 == f) with
  | some p => p.2
  | none => f

def redName : RedOp → String
  | .sum => "sum" | .prod => "prod" | .max => "max" | .min => "min" | .all => "all" | .any => "any"

def arithOp : Raise.BinOp → Option BinOp
  | .add => some .add | .sub => some .sub | .mult => some .mult | .power => some .pow
  | .truediv => some .div | .floordiv => some .floordiv | .mod => some .mod
  | .bitwiseOr => some .bitor | .bitwiseXor => some .bitxor | .bitwiseAnd => some .bitand
  | _ => none

def cmpCall : CmpOp → String
  | .lt => "less" | .gt => "greater" | .le => "less_equal" | .ge => "greater_equal"
  | .eq => "equal" | .ne => "not_equal"

/-- the operand typing rule of `_rec_arith_operand`: a scalar next to an array is emitted with
    the RESULT dtype when NumPy's promotion of the array with the scalar as it stands would not
    give the declared dtype (true division of integers gives float64 anyway) -/
def needsTyping (dt : DType) (isTrueDiv : Bool) (otherIsArray : Bool) (info : ScalarInfo) : Bool :=
  otherIsArray &&
  match info.rt with
  | some (rtName, rtKind) =>
    rtName != dt.name && !(isTrueDiv && (rtKind == "i" || rtKind == "u" || rtKind == "b"))
  | none => false

/-- the scalar form an arithmetic operand is emitted in -/
def arithForm (dt : DType) (isTrueDiv otherIsArray : Bool) (info : ScalarInfo) : Gen ScalarForm :=
  if needsTyping dt isTrueDiv otherIsArray info then
    Gen.ofOption "typed conversion of a scalar operand not available" info.typed
  else .ok info.asIs

/-- `get_einsum_specification`: letters from `i` in order of first appearance -/
def einsumLetters : List EDescr → List EDescr → List EDescr
  | seen, [] => seen
  | seen, d :: r => if seen.contains d then einsumLetters seen r else einsumLetters (seen ++ [d]) r

def letterOf (tbl : List EDescr) (d : EDescr) : String :=
  String.singleton (Char.ofNat ('i'.toNat + tbl.idxOf d))

def einsumSpec (descr : List (List EDescr)) (nout : Nat) : String :=
  let tbl := einsumLetters [] descr.flatten
  -- output axes not mentioned by any operand get the next letters, in order
  let tbl := einsumLetters tbl ((List.range nout).map EDescr.elem)
  ",".intercalate (descr.map fun d => String.join (d.map (letterOf tbl)))
    ++ "->" ++ String.join ((List.range nout).map fun k => letterOf tbl (.elem k))

/-- `_is_slice_trivial` (static shapes) -/
def sliceTrivial (s : NSlice) (dim : Nat) : Bool := s.start == 0 && s.stop == (dim : Int) && s.step == 1

def idxTrivial (ix : PIdx) (dim : Nat) : Bool :=
  match ix with
  | .slice s => sliceTrivial s dim
  | _ => false

/-- `last_non_trivial_index + 1`: the number of leading index entries that are emitted -/
def emittedIdxCount : List PIdx → Shape → Nat
  | [], _ => 0
  | ix :: r, d :: ds =>
    let k := emittedIdxCount r ds
    if k > 0 then k + 1 else if idxTrivial ix d then 0 else 1
  | ix :: r, [] =>
    let k := emittedIdxCount r []
    if k > 0 then k + 1 else (match ix with | .slice _ => 1 | _ => 1)

def optInt : Option Int → Option PyExpr
  | none => none
  | some k => some (intConst k)

/-- `_rec_idx` for a slice of an axis of length `dim` -/
def sliceExpr (s : NSlice) (dim : Nat) : PyIdx :=
  let r := resynthSlice s dim
  .slice (optInt r.1) (optInt r.2.1) (if r.2.2 = 1 then none else some (intConst r.2.2))

/-! ## what is emitted for one node: a PLAN

  Every node is handled in one of three ways:
  * `input`  — a placeholder / data wrapper: its (given or generated) name becomes an argument;
  * `pass c` — no statement: the node is its child `c` (a `NamedArray`; an index whose every entry
               is a trivial slice);
  * `stmt pre kids mk` — one assignment `lhs = mk names`, where `names` are the names of `kids`
               (in the order the real method recurses into them); `pre` says whether the real method
               draws `lhs` from the name generator BEFORE recursing (`map_roll`, `map_index_lambda`,
               …) or after (`map_stack`, `map_concatenate`) — this decides the numbering of the
               temporaries. -/

inductive Plan where
  | input (name : Option String)
  | pass (c : Nat)
  | stmt (pre : Bool) (kids : List Nat) (mk : List String → PyExpr)

/-- an operand position of an emitted expression: a child (by node number) or a literal -/
inductive Slot where
  | kid (c : Nat)
  | lit (e : PyExpr)

def slotKids : List Slot → List Nat
  | [] => []
  | .kid c :: r => c :: slotKids r
  | .lit _ :: r => slotKids r

/-- the operand expressions, children replaced by their names (consumed in order) -/
def fillSlots : List Slot → List String → List PyExpr
  | [], _ => []
  | .kid _ :: r, n :: ns => .name n :: fillSlots r ns
  | .kid _ :: r, [] => .name "?" :: fillSlots r []
  | .lit e :: r, ns => e :: fillSlots r ns

def Operand.isArr' : Raise.Operand → Bool
  | .arr _ => true
  | .scalar _ => false

/-- the operands of a high-level operation as slots (left to right) -/
def slotsOf (binds : List (String × Nat)) (form : Nat → ScalarInfo → Gen ScalarForm)
    (lits : List ScalarInfo) : Nat → List Raise.Operand → Gen (List Slot)
  | _, [] => .ok []
  | k, o :: os =>
    match o with
    | .arr n =>
      (match binds.find? (·.1 == n) with
       | some (_, c) => (slotsOf binds form lits (k + 1) os).bind fun r => .ok (.kid c :: r)
       | none => .unmodelled "operand is not a binding")
    | .scalar c =>
      (match findLit lits c with
       | some info =>
         (form k info).bind fun f =>
           (slotsOf binds form lits (k + 1) os).bind fun r =>
             .ok (.lit (emitScalar f (Raise.litVal c)) :: r)
       | none => .unmodelled "scalar operand without annotation")

/-- ascending insertion sort (the generator's `sorted(...)`) -/
def insertBy {α : Type} (lt : α → α → Bool) (x : α) : List α → List α
  | [] => [x]
  | y :: r => if lt x y then x :: y :: r else y :: insertBy lt x r

def sortBy {α : Type} (lt : α → α → Bool) : List α → List α
  | [] => []
  | x :: r => insertBy lt x (sortBy lt r)

/-- the right-hand side for a classified index lambda -/
def hloPlan (childShape : Nat → List (Option Nat)) (dt : DType) (shape : Shape)
    (binds : List (String × Nat)) (lits : List ScalarInfo) : Raise.HLO → Gen Plan
  | .full c =>
    (Gen.ofOption "fill value without annotation" (findLit lits c)).bind fun info =>
      let rhs : PyExpr :=
        if isOneLit c then
          .call (npf "ones") [shapeTuple shape] (if dt.isDefaultFloat then [] else [dtypeKw dt])
        else if isZeroLit c then
          .call (npf "zeros") [shapeTuple shape] (if dt.isDefaultFloat then [] else [dtypeKw dt])
        else
          .call (npf "full") [shapeTuple shape, emitScalar info.asIs (Raise.litVal c)] [dtypeKw dt]
      .ok (.stmt true [] fun _ => rhs)
  | .binary op x1 x2 =>
    (match arithOp op with
     | some pop =>
       let isDiv := op == .truediv
       let form : Nat → ScalarInfo → Gen ScalarForm := fun k i =>
         arithForm dt isDiv (if k = 0 then Operand.isArr' x2 else Operand.isArr' x1) i
       (slotsOf binds form lits 0 [x1, x2]).bind fun sl =>
         .ok (.stmt true (slotKids sl) fun ns =>
           match fillSlots sl ns with
           | [a, b] => .bin pop a b
           | _ => .name "?")
     | none =>
       let fname := match op with
         | .cmp c => some (cmpCall c)
         | .logicalOr => some "logical_or"
         | .logicalAnd => some "logical_and"
         | _ => none
       match fname with
       | some f =>
         (slotsOf binds (fun _ i => .ok i.asIs) lits 0 [x1, x2]).bind fun sl =>
           .ok (.stmt true (slotKids sl) fun ns => .call (npf f) (fillSlots sl ns) [])
       | none => .refuse "NotImplementedError(binary_op)")
  | .call f args =>
    (slotsOf binds (fun _ i => .ok i.asIs) lits 0 args).bind fun sl =>
      .ok (.stmt true (slotKids sl) fun ns => .call (npf (c99NumpyName f)) (fillSlots sl ns) [])
  | .zerosLike _ =>
    .ok (.stmt true [] fun _ =>
      .call (npf "zeros") [.tuple (shape.map fun d => .num (toString d) (.i (d : Nat)))] [dtypeKw dt])
  | .where_ c t el =>
    (slotsOf binds (fun _ i => .ok i.asIs) lits 0 [c, t, el]).bind fun sl =>
      .ok (.stmt true (slotKids sl) fun ns => .call (npf "where") (fillSlots sl ns) [])
  | .broadcast x =>
    (slotsOf binds (fun _ i => .ok i.asIs) lits 0 [.arr x]).bind fun sl =>
      .ok (.stmt true (slotKids sl) fun ns =>
        .call (npf "broadcast_to") (fillSlots sl ns ++ [shapeTuple shape]) [])
  | .logicalNot _ => .refuse "NotImplementedError(LogicalNotOp)"
  | .reduce op x axes =>
    (Gen.ofOption "operand is not a binding" ((binds.find? (·.1 == x)).map (·.2))).bind fun c =>
      let ndim := (childShape c).length
      let dims := axes.map (·.1)
      .ok (.stmt true [c] fun ns =>
        let nm := ns.headD "?"
        if (List.range ndim).all dims.contains then
          .call (npf (redName op)) [.name nm] []
        else
          match dims with
          | [d] => .call (npf (redName op)) [.name nm] [("axis", intConst (d : Nat))]
          | _ =>
            .call (npf (redName op)) [.name nm]
              [("axis", .tuple ((sortBy (fun a b => decide (a < b)) dims).map fun d => intConst (d : Nat)))])

/-- static shapes of the bindings -/
def bindShapes (g : PGraph) : List (String × Nat) → Gen (List (String × Shape))
  | [] => .ok []
  | (n, c) :: r =>
    match staticShape (g.get c).shape with
    | none => .unmodelled "symbolic binding shape"
    | some s => (bindShapes g r).bind fun rs => .ok ((n, s) :: rs)

/-- `map_index_lambda` -/
def ilPlan (g : PGraph) (dt : DType) (shape : Shape) (e : SExpr) (binds : List (String × Nat))
    (lits : List ScalarInfo) : Gen Plan :=
  (bindShapes g binds).bind fun bs =>
    match Raise.raise e shape bs with
    | none => .refuse "UnknownIndexLambdaExpr"
    | some hlo => hloPlan (fun c => (g.get c).shape) dt shape binds lits hlo

/-- index entries as slots: array indices are children -/
inductive ISlot where
  | kid (c : Nat)
  | lit (i : PyIdx)

def islotKids : List ISlot → List Nat
  | [] => []
  | .kid c :: r => c :: islotKids r
  | .lit _ :: r => islotKids r

def fillISlots : List ISlot → List String → List PyIdx
  | [], _ => []
  | .kid _ :: r, n :: ns => .expr (.name n) :: fillISlots r ns
  | .kid _ :: r, [] => .expr (.name "?") :: fillISlots r []
  | .lit i :: r, ns => i :: fillISlots r ns

def idxSlots : List PIdx → Shape → List ISlot
  | [], _ => []
  | ix :: r, ds =>
    (match ix with
     | .int k => .lit (.expr (intConst k))
     | .slice s => .lit (sliceExpr s (ds.headD 0))
     | .arr c => .kid c) :: idxSlots r ds.tail

/-- the plan for node `i` -/
def plan (g : PGraph) (i : Nat) : Gen Plan :=
  let nd := g.get i
  match nd.node with
  | .placeholder name => .ok (.input (some name))
  | .dataWrapper name => .ok (.input name)
  | .sizeParam _ => .refuse "NotImplementedError(SizeParam)"
  | .indexLambda dt e binds lits =>
    (match staticShape nd.shape with
     | some shape => ilPlan g dt shape e binds lits
     | none => .unmodelled "symbolic index-lambda shape")
  | .roll c shift axis =>
    .ok (.stmt true [c] fun ns =>
      .call (npf "roll") [.name (ns.headD "?")] [("shift", intConst shift), ("axis", intConst axis)])
  | .perm c p =>
    .ok (.stmt true [c] fun ns =>
      if p == (List.range p.length).reverse then .attr (.name (ns.headD "?")) "T"
      else .call (npf "transpose") [.name (ns.headD "?")]
        [("axes", .list (p.map fun a => intConst (a : Nat)))])
  | .reshape c order =>
    (match staticShape nd.shape with
     | none => .refuse "NotImplementedError(Non-integral reshapes)"
     | some shape =>
       .ok (.stmt true [c] fun ns =>
         .call (npf "reshape") [.name (ns.headD "?"), shapeTuple shape] [("order", .str order)]))
  | .stack cs axis =>
    .ok (.stmt false cs fun ns => .call (npf "stack") [.list (ns.map .name)] [("axis", intConst axis)])
  | .concat cs axis =>
    .ok (.stmt false cs fun ns =>
      .call (npf "concatenate") [.list (ns.map .name)] [("axis", intConst axis)])
  | .index c ix =>
    (match staticShape (g.get c).shape with
     | none => .unmodelled "symbolic shape under an index"
     | some cshape =>
       let k := emittedIdxCount ix cshape
       if k = 0 then .ok (.pass c)
       else
         -- the index entries are built (their arrays recursed into) before the indexed array is
         let sl := idxSlots (ix.take k) cshape
         .ok (.stmt true (islotKids sl ++ [c]) fun ns =>
           .subscript (.name (ns.getLastD "?")) (fillISlots sl ns.dropLast)))
  | .indexNC c ix =>
    (match staticShape (g.get c).shape with
     | none => .unmodelled "symbolic shape under an index"
     | some cshape =>
       if emittedIdxCount ix cshape = 0 then .ok (.pass c)
       else
         -- advanced indices that were separated only by an ellipsis standing for no axis: NumPy
         -- must see it, and then every axis is indexed explicitly
         let adv := (List.range ix.length).filter fun i =>
           match ix[i]? with | some (.slice _) => false | _ => true
         let needsEllipsis := adv.getLastD 0 - adv.headD 0 + 1 == adv.length
         let k := if needsEllipsis then cshape.length else emittedIdxCount ix cshape
         let sl0 := idxSlots (ix.take k) cshape
         let sl := if needsEllipsis then
             sl0.take (adv.headD 0 + 1) ++ [.lit (.expr (.name "..."))] ++ sl0.drop (adv.headD 0 + 1)
           else sl0
         .ok (.stmt true (islotKids sl ++ [c]) fun ns =>
           .subscript (.name (ns.getLastD "?")) (fillISlots sl ns.dropLast)))
  | .einsum descr cs =>
    .ok (.stmt true cs fun ns =>
      .call (npf "einsum") (.str (einsumSpec descr nd.shape.length) :: ns.map .name) [])
  | .alias c => .ok (.pass c)
  | .dict items =>
    -- `sorted(expr._data.items())`: by key, each value stays with its key
    let sorted := sortBy (fun a b => decide (a.1 < b.1)) items
    .ok (.stmt true (sorted.map (·.2)) fun ns => .dict ((sorted.map (·.1)).zip (ns.map .name)))
  | .refused kind => .refuse ("NotImplementedError(" ++ kind ++ ")")
  | .other kind => .unmodelled ("node kind " ++ kind)

/-! ## the traversal -/

def lookupMemo (m : List (Nat × String)) (i : Nat) : Option String :=
  (m.find? (·.1 == i)).map (·.2)

def recAll (rec : Nat → St → Gen (String × St)) : List Nat → St → Gen (List String × St)
  | [], st => .ok ([], st)
  | c :: cs, st =>
    (rec c st).bind fun r =>
      (recAll rec cs r.2).bind fun rs => .ok (r.1 :: rs.1, rs.2)

def St.memoize (st : St) (i : Nat) (n : String) : St := { st with memo := (i, n) :: st.memo }

/-- `NumpyCodegenMapper.rec` on node `i` (fuel-indexed; `fuel = i + 1` suffices on a heap with
    children below parents) -/
def emitNode (g : PGraph) : Nat → Nat → St → Gen (String × St)
  | 0, _, _ => .unmodelled "out of fuel"
  | fuel + 1, i, st =>
    match lookupMemo st.memo i with
    | some n => .ok (n, st)
    | none =>
      (plan g i).bind fun pl =>
      match pl with
      | .input (some name) => .ok (name, ({ st with args := name :: st.args }).memoize i name)
      | .input none =>
        (st.fresh "_pt_data").bind fun r =>
          .ok (r.1, ({ r.2 with args := r.1 :: r.2.args }).memoize i r.1)
      | .pass c => (emitNode g fuel c st).bind fun r => .ok (r.1, r.2.memoize i r.1)
      | .stmt true kids mk =>
        (st.fresh "_pt_tmp").bind fun l =>
          (recAll (emitNode g fuel) kids l.2).bind fun r =>
            .ok (l.1, (r.2.record l.1 (mk r.1)).memoize i l.1)
      | .stmt false kids mk =>
        (recAll (emitNode g fuel) kids st).bind fun r =>
          (r.2.fresh "_pt_tmp").bind fun l =>
            .ok (l.1, (l.2.record l.1 (mk r.1)).memoize i l.1)

structure Program where
  /-- keyword-only arguments of the generated function, sorted -/
  args : List String
  body : List PyStmt
  /-- which name holds which node (for an input node: the argument the caller must bind) -/
  memo : List (Nat × String)
deriving Inhabited

/-- `generate_numpy_like`: `existing` = the names the generator was seeded with (inputs, output
    keys, `_pt_np`, `np`, the function name) -/
def generate (g : PGraph) (root : Nat) (existing : List String) : Gen Program :=
  let st0 : St := { ng := { existing := existing, counters := [] }, memo := [], lines := [], args := [] }
  match emitNode g (root + 1) root st0 with
  | .ok (res, st) =>
    .ok { args := sortBy (fun a b => decide (a < b)) st.args.eraseDups,
          body := st.lines.reverse ++ [.ret res],
          memo := st.memo }
  | .refuse w => .refuse w
  | .unmodelled w => .unmodelled w

end Py
end Pt

/-
  PtModel.Distribute — model of `apply_distributive_property_to_einsums`
  (`pytato/transform/einsum_distributive_law.py: EinsumDistributiveLawMapper`).

  How a pytato graph corresponds to a `DExpr` (what the serialiser must do):
  * `Einsum(access_descriptors, args)`  ↦ `.einsum descrs nout args`
    (`EinsumElementwiseAxis(k)` ↦ `.elem k`, `EinsumReductionAxis(k)` ↦ `.red k`, `nout = ndim`);
  * an `IndexLambda` that `index_lambda_to_high_level_op` raises to a `BinaryOp`
      `ADD`/`SUB` of two ARRAYS         ↦ `.add s a b` / `.sub s a b` with
                                           `s = are_shapes_equal(x1.shape, x2.shape)`,
      `MULT` scalar*array / array*scalar ↦ `.smul c a` / `.muls a c`   (`np.isscalar` operand = `c`),
      `TRUEDIV` array/scalar             ↦ `.divs a c`,   scalar/array ↦ `.sdivl c a`;
  * every other node (any other index lambda, reshape, index, roll, stack, …,
    array*array, array/array, …)        ↦ `.other f children` with any tag `f`
    identifying the operation (children = bindings sorted by name / operand arrays);
  * inputs (placeholders, data wrappers, size params) ↦ `.leaf name`.
  The policy callback `how_to_distribute(einsum)` ↦ `policy : DExpr → Option Nat`
  (`DoDistribute(k)` ↦ `some k`, `DoNotDistribute()` ↦ `none`), applied to the
  einsum node itself.  `canDist` stands for `_can_hlo_be_distributed`; its real
  truth table is regenerated into `PtGen.distRows`.
-/
import PtModel.Einsum
namespace Pt

/-- what `_can_hlo_be_distributed` looks at -/
structure DistCase where
  op : String
  x1Scalar : Bool
  x2Scalar : Bool
  shapesEqual : Bool
deriving DecidableEq, Repr

/-- the cases in which pushing the operation through an einsum is an algebraic
    identity: `ADD`/`SUB` of two arrays of equal shape; `MULT` with a scalar on
    either side; `TRUEDIV` with a scalar DENOMINATOR -/
def linearCase (op : String) (x1Scalar x2Scalar shapesEqual : Bool) : Bool :=
  if op = "ADD" ∨ op = "SUB" then !x1Scalar && !x2Scalar && shapesEqual
  else if op = "MULT" then x1Scalar || x2Scalar
  else if op = "TRUEDIV" then x2Scalar
  else false

def Linear (c : DistCase) : Prop := linearCase c.op c.x1Scalar c.x2Scalar c.shapesEqual = true

inductive DExpr where
  | leaf (name : String)
  | add (sameShape : Bool) (a b : DExpr)
  | sub (sameShape : Bool) (a b : DExpr)
  | smul (c : Rat) (a : DExpr)          -- c * a
  | muls (a : DExpr) (c : Rat)          -- a * c
  | divs (a : DExpr) (c : Rat)          -- a / c
  | sdivl (c : Rat) (a : DExpr)         -- c / a
  | other (f : String) (args : List DExpr)
  | einsum (descrs : List (List EAxis)) (nout : Nat) (args : List DExpr)
deriving Repr, Inhabited

/-- `_EinsumDistributiveLawMapperContext`: the surrounding einsum with one
    operand hole.  `args` are the einsum's ORIGINAL operands (the mapper does
    not rewrite the surrounding operands); the entry at `hole` is ignored. -/
structure EinsumCtx where
  descrs : List (List EAxis)
  nout : Nat
  args : List DExpr
  hole : Nat
deriving Repr

/-- `_wrap_einsum_from_ctx` -/
def wrap (ctx : Option EinsumCtx) (e : DExpr) : DExpr :=
  match ctx with
  | none => e
  | some c => .einsum c.descrs c.nout (c.args.set c.hole e)

mutual
/-- value of an expression: leaves from `env`; opaque operations (and
    `ADD`/`SUB` of arrays of different shapes, i.e. broadcasting ones) through an
    arbitrary interpretation `opq` — the theorems hold for every `opq` -/
def DExpr.denote (env : String → Arr Rat) (opq : String → List (Arr Rat) → Arr Rat) :
    DExpr → Arr Rat
  | .leaf n => env n
  | .add s a b =>
    if s then Arr.add (a.denote env opq) (b.denote env opq)
    else opq "ADD" [a.denote env opq, b.denote env opq]
  | .sub s a b =>
    if s then Arr.sub (a.denote env opq) (b.denote env opq)
    else opq "SUB" [a.denote env opq, b.denote env opq]
  | .smul c a => Arr.smul c (a.denote env opq)
  | .muls a c => Arr.muls (a.denote env opq) c
  | .divs a c => Arr.sdiv (a.denote env opq) c
  | .sdivl c a => Arr.sdivl c (a.denote env opq)
  | .other f args => opq f (DExpr.denoteList env opq args)
  | .einsum d n args => Spec.einsum d n (DExpr.denoteList env opq args)
def DExpr.denoteList (env : String → Arr Rat) (opq : String → List (Arr Rat) → Arr Rat) :
    List DExpr → List (Arr Rat)
  | [] => []
  | a :: as => a.denote env opq :: DExpr.denoteList env opq as
end

mutual
/-- well-formedness relative to an environment: `ADD`/`SUB` nodes flagged
    `sameShape` really have operands of one shape; every einsum has one access
    descriptor per operand -/
def DExpr.WF (env : String → Arr Rat) (opq : String → List (Arr Rat) → Arr Rat) : DExpr → Prop
  | .leaf _ => True
  | .add s a b | .sub s a b =>
    (s = true → (a.denote env opq).shape = (b.denote env opq).shape) ∧ a.WF env opq ∧ b.WF env opq
  | .smul _ a | .muls a _ | .divs a _ | .sdivl _ a => a.WF env opq
  | .other _ args => DExpr.WFList env opq args
  | .einsum d _ args => d.length = args.length ∧ DExpr.WFList env opq args
def DExpr.WFList (env : String → Arr Rat) (opq : String → List (Arr Rat) → Arr Rat) :
    List DExpr → Prop
  | [] => True
  | a :: as => a.WF env opq ∧ DExpr.WFList env opq as
end

abbrev Policy := DExpr → Option Nat

mutual
/-- `EinsumDistributiveLawMapper.rec(expr, ctx)` -/
def distribute (policy : Policy) (canDist : DistCase → Bool) :
    DExpr → Option EinsumCtx → Except String DExpr
  | .leaf n, ctx => .ok (wrap ctx (.leaf n))
  | .add s a b, ctx =>
    if canDist ⟨"ADD", false, false, s⟩ then do
      let a' ← distribute policy canDist a ctx
      let b' ← distribute policy canDist b ctx
      pure (.add s a' b')
    else do
      let a' ← distribute policy canDist a none
      let b' ← distribute policy canDist b none
      pure (wrap ctx (.add s a' b'))
  | .sub s a b, ctx =>
    if canDist ⟨"SUB", false, false, s⟩ then do
      let a' ← distribute policy canDist a ctx
      let b' ← distribute policy canDist b ctx
      pure (.sub s a' b')
    else do
      let a' ← distribute policy canDist a none
      let b' ← distribute policy canDist b none
      pure (wrap ctx (.sub s a' b'))
  | .smul c a, ctx =>
    if canDist ⟨"MULT", true, false, false⟩ then do
      let a' ← distribute policy canDist a ctx
      pure (.smul c a')
    else do
      let a' ← distribute policy canDist a none
      pure (wrap ctx (.smul c a'))
  | .muls a c, ctx =>
    if canDist ⟨"MULT", false, true, false⟩ then do
      let a' ← distribute policy canDist a ctx
      pure (.muls a' c)
    else do
      let a' ← distribute policy canDist a none
      pure (wrap ctx (.muls a' c))
  | .divs a c, ctx =>
    if canDist ⟨"TRUEDIV", false, true, false⟩ then do
      let a' ← distribute policy canDist a ctx
      pure (.divs a' c)
    else do
      let a' ← distribute policy canDist a none
      pure (wrap ctx (.divs a' c))
  | .sdivl c a, ctx =>
    if canDist ⟨"TRUEDIV", true, false, false⟩ then do
      let a' ← distribute policy canDist a ctx
      pure (.sdivl c a')
    else do
      let a' ← distribute policy canDist a none
      pure (wrap ctx (.sdivl c a'))
  | .other f args, ctx => do
    let args' ← distributeList policy canDist args
    pure (wrap ctx (.other f args'))
  | .einsum d n args, ctx =>
    match policy (.einsum d n args) with
    | some k =>
      (match ctx with
       | some _ => .error "Cannot distribute composed einsums."
       | none => distributeNth policy canDist args k ⟨d, n, args, k⟩)
    | none => do
      let args' ← distributeList policy canDist args
      pure (wrap ctx (.einsum d n args'))
/-- `tuple(self.rec(arg, None) for arg in args)` -/
def distributeList (policy : Policy) (canDist : DistCase → Bool) :
    List DExpr → Except String (List DExpr)
  | [] => .ok []
  | a :: as => do
    let a' ← distribute policy canDist a none
    let as' ← distributeList policy canDist as
    pure (a' :: as')
/-- `self.rec(expr.args[ioperand], ctx)` -/
def distributeNth (policy : Policy) (canDist : DistCase → Bool) :
    List DExpr → Nat → EinsumCtx → Except String DExpr
  | [], _, _ => .error "IndexError: tuple index out of range"
  | a :: _, 0, c => distribute policy canDist a (some c)
  | _ :: as, k + 1, c => distributeNth policy canDist as k c
end

end Pt

/-
  PtModel.Lower — hand-written models of pytato's lowering rules
  (`pytato/transform/lower_to_index_lambda.py`): for each high-level node kind
  the scalar expression `to_index_lambda` builds, as a function of the node's
  parameters.  Integer (non-symbolic) shapes.
-/
import PtModel.Scalar
import PtModel.Slice
import PtModel.Spec
namespace Pt
namespace Lower

def ivar (k : Nat) : SExpr := .idx k

/-- the binding name `_in<k>` -/
def inName (k : Nat) : String := "_in" ++ toString k

/-- the bindings `_in<k> ↦ as[k - k0]` of `map_stack` / `map_concatenate`,
    numbered from `k0` -/
def inBindsFrom : Nat → List (Arr Val) → List (String × Arr Val)
  | _, [] => []
  | k, a :: as => (inName k, a) :: inBindsFrom (k + 1) as

/-- `{f"_in{i}": array for i, array in enumerate(arrays)}` -/
def inBinds (as : List (Arr Val)) : List (String × Arr Val) := inBindsFrom 0 as

/-- `x - c` as pymbolic builds it for an integer constant `c` -/
def subConst (x : SExpr) (c : Int) : SExpr := .add x (.int (-c))

/-- `map_roll`: `_in0[_0, …, (_axis - shift) % n, …]` -/
def roll (shift : Int) (axis nd : Nat) (n : Nat) : SExpr :=
  .sub "_in0" ((List.range nd).map fun d =>
    if d = axis then .rem (subConst (ivar d) shift) (.int n) else ivar d)

/-- `map_axis_permutation`: `indices[perm[from]] = _from` -/
def perm (p : List Nat) : SExpr :=
  .sub "_in0" ((List.range p.length).map fun to => ivar (p.idxOf to))

/-- `map_stack`: nested `If(_axis == i, _in_i[rest], …)`, last operand in the
    innermost else-branch -/
def stackFrom (axis nd : Nat) (subscript : List SExpr) : Nat → Nat → SExpr
  | _, 0 => .sub "_in0" subscript   -- unreachable for n ≥ 1 (see `stack`)
  | i, (k + 1) =>
    if k = 0 then .sub (inName i) subscript
    else .ite (.cmp .eq (ivar axis) (.int i)) (.sub (inName i) subscript)
              (stackFrom axis nd subscript (i + 1) k)

def stack (narrays axis nd : Nat) : SExpr :=
  let subscript := ((List.range nd).filter (· ≠ axis)).map ivar
  stackFrom axis nd subscript 0 narrays

/-- `map_concatenate`: nested `If(_axis < ubound_i, _in_i[…, _axis - lbound_i, …], …)` -/
def concatFrom (axis nd : Nat) : Nat → Nat → List Nat → SExpr
  | _, _, [] => .int 0
  | i, lb, [_] =>
    .sub (inName i) ((List.range nd).map fun d =>
      if d = axis then subConst (ivar d) lb else ivar d)
  | i, lb, n :: rest =>
    .ite (.cmp .lt (ivar axis) (.int (lb + n : Nat)))
      (.sub (inName i) ((List.range nd).map fun d =>
        if d = axis then subConst (ivar d) lb else ivar d))
      (concatFrom axis nd (i + 1) (lb + n) rest)

def concat (lens : List Nat) (axis nd : Nat) : SExpr :=
  concatFrom axis nd 0 0 lens

/-- a normalised basic-index component as stored in `BasicIndex.indices` -/
inductive NIdx where
  | int (k : Int)
  | slice (s : NSlice)
deriving Repr

/-- `map_basic_index`: per axis, `idx % n` (a constant: both are Python ints),
    `_j` for an identity slice, `start + step * _j` otherwise -/
def basicIdxFrom : Nat → List NIdx → Shape → List SExpr
  | _, [], _ | _, _, [] => []
  | j, .int k :: ix, n :: ns => .int (pyMod k n) :: basicIdxFrom j ix ns
  | j, .slice s :: ix, n :: ns =>
    (if s.stop = n ∧ s.step = 1 ∧ s.start = 0 then ivar j
     else .add (.int s.start) (.mul (.int s.step) (ivar j))) :: basicIdxFrom (j + 1) ix ns

def basic (ix : List NIdx) (shape : Shape) : SExpr :=
  .sub "in" (basicIdxFrom 0 ix shape)

/-- `_index_into`: slices are normalised against their axis length, ints kept -/
def normIdx : Shape → List Spec.BIdx → List NIdx
  | _ :: ns, .int k :: ix => .int k :: normIdx ns ix
  | n :: ns, .slice st sp step :: ix => .slice (ptNormSlice st sp step n) :: normIdx ns ix
  | _, _ => []

/-- what `_index_into` accepts: one component per axis, ints within
    `[-n, n)`, slice steps non-zero -/
def validIx : Shape → List Spec.BIdx → Prop
  | [], [] => True
  | n :: ns, .int k :: ix => (-(n : Int) ≤ k ∧ k < n) ∧ validIx ns ix
  | _ :: ns, .slice _ _ step :: ix => step ≠ 0 ∧ validIx ns ix
  | _, _ => False

/-! ### reshape -/

inductive Order | C | F
deriving DecidableEq, Repr

/-- strides of a shape: C: `prod s[k+1:]`, F: `prod s[:k]` -/
def strides (o : Order) (s : Shape) : List Nat :=
  match o with
  | .C => (List.range s.length).map fun k => prod (s.drop (k + 1))
  | .F => (List.range s.length).map fun k => prod (s.take k)

/-- "size till": C: `prod s[k:]`, F: `prod s[:k+1]` -/
def sizeTills (o : Order) (s : Shape) : List Nat :=
  match o with
  | .C => (List.range s.length).map fun k => prod (s.drop k)
  | .F => (List.range s.length).map fun k => prod (s.take (k + 1))

/-- `sum(index_var * new_stride)`, flattened (left fold, starting from the
    first product; the empty sum is the integer 0) -/
def flatIndex (vars : List SExpr) (strs : List Nat) : SExpr :=
  match (vars.zip strs).map fun (v, s) => SExpr.mul v (.int s) with
  | [] => .int 0
  | t :: ts => ts.foldl .add t

/-- `_generate_index_expressions`; `none` where the Python asserts -/
def genIdx (o : Order) (old new : Shape) (vars : List SExpr) : Option (List SExpr) :=
  if old = [] then (if new = [1] then some [.int 0] else none)
  else if old = new then some vars
  else
    let flat := flatIndex vars (strides o new)
    let oldSize := prod old
    let md (num : SExpr) (den : Nat) : SExpr :=
      if den = oldSize ∧ den ≠ 0 then num else .rem num (.int den)
    let fd (num : SExpr) (den : Nat) : SExpr :=
      if den = 1 then num else .fdiv num (.int den)
    some (((sizeTills o old).zip (strides o old)).map fun (st, str) => fd (md flat st) str)

structure Group where
  old : Shape
  new : Shape
deriving Repr, DecidableEq

/-- inner loop of the axis matching: extend the shorter product until both agree -/
def extendGroup (old new : Shape) : Nat → Nat → Nat → Nat → Nat → Option (Nat × Nat)
  | 0, _, _, _, _ => none
  | fuel + 1, op, np, oe, ne =>
    if op = np then some (oe, ne)
    else if np < op then
      match new[ne]? with
      | some d => extendGroup old new fuel op (np * d) oe (ne + 1)
      | none => none
    else
      match old[oe]? with
      | some d => extendGroup old new fuel (op * d) np (oe + 1) ne
      | none => none

/-- the two-pointer loop of `_get_reshaped_indices` building `axis_mapping` -/
def groupsFrom (old new : Shape) : Nat → Nat → Nat → Option (List Group)
  | 0, _, _ => none
  | fuel + 1, oi, ni =>
    match old[oi]?, new[ni]? with
    | some od, some nd =>
      if od ≠ nd ∧ od = 1 then
        (groupsFrom old new fuel (oi + 1) ni).map (⟨[od], []⟩ :: ·)
      else if od ≠ nd ∧ nd = 1 then
        (groupsFrom old new fuel oi (ni + 1)).map (⟨[], [nd]⟩ :: ·)
      else
        match extendGroup old new (old.length + new.length + 1) od nd (oi + 1) (ni + 1) with
        | some (oe, ne) =>
          (groupsFrom old new fuel oe ne).map
            (⟨(old.drop oi).take (oe - oi), (new.drop ni).take (ne - ni)⟩ :: ·)
        | none => none
    | some od, none =>
      -- trailing old axes must all be 1
      if od = 1 then (groupsFrom old new fuel (oi + 1) ni).map (⟨[od], []⟩ :: ·) else none
    | none, some nd =>
      if nd = 1 then (groupsFrom old new fuel oi (ni + 1)).map (⟨[], [nd]⟩ :: ·) else none
    | none, none => some []

def groups (old new : Shape) : Option (List Group) :=
  groupsFrom old new (old.length + new.length + 1) 0 0

/-- index expressions per group, consuming index variables left to right -/
def groupIdx (o : Order) : List Group → Nat → Option (List SExpr)
  | [], _ => some []
  | g :: gs, v0 =>
    let vars := (List.range g.new.length).map fun k => ivar (v0 + k)
    if g.old = [] then
      (if g.new = [1] then groupIdx o gs (v0 + g.new.length) else none)
    else
      match genIdx o g.old g.new vars, groupIdx o gs (v0 + g.new.length) with
      | some a, some b => some (a ++ b)
      | _, _ => none

/-- `_get_reshaped_indices` -/
def reshapeIdx (o : Order) (old new : Shape) : Option (List SExpr) :=
  let vars := (List.range new.length).map ivar
  if old = [] then (if prod new = 1 then some [] else none)
  else if new = [] then genIdx o old new vars
  else if old.contains 0 ∧ new.contains 0 then genIdx o old new vars
  else (groups old new).bind fun gs => groupIdx o gs 0

/-- `map_reshape` -/
def reshape (o : Order) (old new : Shape) : Option SExpr :=
  (reshapeIdx o old new).map fun ix => .sub "_in0" ix

/-- `get_indexing_expression(shape, result_shape)`: subscripts of an operand of
    shape `s` broadcast into a result of shape `r` (`0` where the operand's axis
    length differs from the result's, `_k` otherwise) -/
def bcastSubscript (s r : Shape) : List SExpr :=
  (List.range s.length).map fun k =>
    if s.getD k 0 ≠ r.getD (r.length - s.length + k) 0 then .int 0
    else ivar (r.length - s.length + k)

end Lower
end Pt

/-
  PtModel.Names — model of `pytools.UniqueNameGenerator` as pytato uses it for
  every generated identifier (temporaries, inames, reduction variables, bound
  data names): per-prefix counters, candidates `p, p_0, p_1, …` (continuing from
  the stored counter), the first candidate that is not an existing name wins and
  becomes an existing name.
-/
namespace Pt

structure NameGen where
  existing : List String
  counters : List (String × Nat)
deriving Repr, Inhabited

def NameGen.counter? (g : NameGen) (p : String) : Option Nat :=
  (g.counters.find? (·.1 == p)).map (·.2)

def numbered (p : String) (k : Nat) : String := p ++ "_" ++ toString k

/-- trailing decimal digits of a string, if preceded by `_` and a non-empty prefix:
    `"x_12"` ↦ `("x", 12)` (pytools' `UNIQUE_NAME_GEN_COUNTER_RE`) -/
def splitCounter (s : String) : Option (String × Nat) :=
  let cs := s.toList
  let digits := (cs.reverse.takeWhile Char.isDigit).reverse
  let rest := cs.take (cs.length - digits.length)
  match rest.reverse with
  | '_' :: pre =>
    if digits.isEmpty || pre.isEmpty then none
    else
      -- `\w+` must match the whole prefix
      if pre.all (fun c => c.isAlphanum || c == '_') then
        (String.ofList digits).toNat?.map fun n => (String.ofList pre.reverse, n)
      else none
  | _ => none

/-- search `numbered p k, numbered p (k+1), …` for the first non-existing name -/
def searchFrom (existing : List String) (p : String) : Nat → Nat → Option (Nat × String)
  | 0, _ => none
  | fuel + 1, k =>
    if existing.contains (numbered p k) then searchFrom existing p fuel (k + 1)
    else some (k + 1, numbered p k)

/-- which prefix and starting counter a request resolves to -/
def NameGen.resolve (g : NameGen) (basedOn : String) : String × Option Nat :=
  match g.counter? basedOn with
  | some c => (basedOn, some c)
  | none =>
    match splitCounter basedOn with
    | some (b, c) => (b, some c)
    | none => (basedOn, none)

/-- first non-existing candidate: `p` itself when there is no counter yet -/
def findName (existing : List String) (p : String) : Option Nat → Option (Nat × String)
  | none =>
    if existing.contains p then searchFrom existing p (existing.length + 1) 0
    else some (0, p)
  | some c => searchFrom existing p (existing.length + 1) c

/-- `UniqueNameGenerator.__call__(based_on)` (no forced prefix/suffix) -/
def NameGen.gen (g : NameGen) (basedOn : String) : Option (String × NameGen) :=
  let r := g.resolve basedOn
  (findName g.existing r.1 r.2).map fun (c, name) =>
    (name, { existing := name :: g.existing,
             counters := (r.1, c) :: g.counters.filter (·.1 != r.1) })

/-- `add_name` with `conflicting_ok=False` -/
def NameGen.addName (g : NameGen) (n : String) : Option NameGen :=
  if g.existing.contains n then none else some { g with existing := n :: g.existing }

/-- a sequence of requests, all succeeding; returns the names handed out (latest first) -/
def NameGen.genMany : NameGen → List String → Option (List String × NameGen)
  | g, [] => some ([], g)
  | g, b :: bs =>
    match g.gen b with
    | none => none
    | some (n, g') =>
      match g'.genMany bs with
      | none => none
      | some (ns, g'') => some (n :: ns, g'')

end Pt

/-
  PtModel.HandleContractShape — driver queries `(cshape matmul|dot|vdot (s1) (s2))`,
  `(cshape pad (s) ((before after) …))` for `PtModel.ContractShape`.
-/
import PtModel.Sexp
import PtModel.ContractShape
namespace Pt

def showOptShape : Option (List Nat) → String
  | some s => "(" ++ " ".intercalate (s.map toString) ++ ")"
  | none => "none"

def handleContractShape : List Sx → Option String
  | [.atom "matmul", a, b] => do some (showOptShape (Contract.matmulShape (← a.asNats?) (← b.asNats?)))
  | [.atom "dot", a, b] => do some (showOptShape (Contract.dotShape (← a.asNats?) (← b.asNats?)))
  | [.atom "vdot", a, b] => do some (showOptShape (Contract.vdotShape (← a.asNats?) (← b.asNats?)))
  | [.atom "pad", s, .list ws] => do
    let widths ← ws.mapM fun
      | .list [b, a] => do some ((← b.asInt?), (← a.asInt?))
      | _ => none
    some (showOptShape (Contract.padShape (← s.asNats?) widths))
  | _ => none

end Pt

/-
  PtModel.Raise — model of `pytato.raising.index_lambda_to_high_level_op`: the
  cascade of structural matches that classifies an index lambda as a high-level
  operation, and the NumPy meaning of the resulting operation.

  Conventions (wire format = `harness/ser.py`):
  * n-ary `Sum`/`Product`/`LogicalAnd`/`LogicalOr` arrive left-folded into binary
    nodes, so "exactly two children" becomes "neither child is itself recognised
    as an operand", which gives the same answer (an operand is never a sum);
  * `x - y` is `(add x (mul (int -1) y))` — only the integer literal `-1` is
    recognised (that is what the array API emits);
  * bitwise operators are `(call bitand|bitor|bitxor a b)`;
  * `(nan)` is `pymbolic.NaN` (or a non-finite float constant): a scalar operand,
    but, as in the real code, not a `FullOp` on its own;
  * a multi-variable `Reduce` arrives as nested `reduce` nodes of one operator,
    outermost = first variable in sorted order;
  * every way the real code can fail (`UnknownIndexLambdaExpr`, or a crash:
    `KeyError` for an unbound name, `AssertionError`, `NotImplementedError` for
    non-integer bounds, `CannotBroadcastError`) is `none`.
-/
import PtModel.Scalar
import PtModel.Spec
import PtModel.Lower
namespace Pt
namespace Raise

/-- `BinaryOpType` -/
inductive BinOp where
  | add | sub | mult | logicalOr | logicalAnd | bitwiseOr | bitwiseAnd | bitwiseXor
  | truediv | floordiv | power | mod
  | cmp (op : CmpOp)
deriving DecidableEq, Repr

def BinOp.name : BinOp → String
  | .add => "ADD" | .sub => "SUB" | .mult => "MULT"
  | .logicalOr => "LOGICAL_OR" | .logicalAnd => "LOGICAL_AND"
  | .bitwiseOr => "BITWISE_OR" | .bitwiseAnd => "BITWISE_AND" | .bitwiseXor => "BITWISE_XOR"
  | .truediv => "TRUEDIV" | .floordiv => "FLOORDIV" | .power => "POWER" | .mod => "MOD"
  | .cmp .lt => "LESS" | .cmp .le => "LESS_EQUAL" | .cmp .gt => "GREATER"
  | .cmp .ge => "GREATER_EQUAL" | .cmp .eq => "EQUAL" | .cmp .ne => "NOT_EQUAL"

/-- an operand of a high-level operation: one of the bindings, or a scalar literal
    (`.int`, `.bool`, `.rat`, `.nan`) -/
inductive Operand where
  | arr (name : String)
  | scalar (lit : SExpr)
deriving Repr

/-- `HighLevelOp` -/
inductive HLO where
  | full (c : SExpr)
  | binary (op : BinOp) (x1 x2 : Operand)
  | call (f : String) (args : List Operand)
  | zerosLike (x : String)
  | where_ (c t e : Operand)
  | broadcast (x : String)
  | logicalNot (x : String)
  | reduce (op : RedOp) (x : String) (axes : List (Nat × String))
deriving Repr

/-! ### `TypeCastDropper` -/

mutual
def dropCasts : SExpr → SExpr
  | .cast _ a => dropCasts a
  | .sub a ix => .sub a (dropCastsList ix)
  | .add a c => .add (dropCasts a) (dropCasts c)
  | .mul a c => .mul (dropCasts a) (dropCasts c)
  | .quot a c => .quot (dropCasts a) (dropCasts c)
  | .fdiv a c => .fdiv (dropCasts a) (dropCasts c)
  | .rem a c => .rem (dropCasts a) (dropCasts c)
  | .pow a c => .pow (dropCasts a) (dropCasts c)
  | .cmp op a c => .cmp op (dropCasts a) (dropCasts c)
  | .land a c => .land (dropCasts a) (dropCasts c)
  | .lor a c => .lor (dropCasts a) (dropCasts c)
  | .lnot a => .lnot (dropCasts a)
  | .ite c t e => .ite (dropCasts c) (dropCasts t) (dropCasts e)
  | .reduce op v lo hi body => .reduce op v (dropCasts lo) (dropCasts hi) (dropCasts body)
  | .call f args => .call f (dropCastsList args)
  | .int n => .int n
  | .bool b => .bool b
  | .rat p q => .rat p q
  | .nan => .nan
  | .idx k => .idx k
  | .var x => .var x
def dropCastsList : List SExpr → List SExpr
  | [] => []
  | e :: es => dropCasts e :: dropCastsList es
end

/-! ### operands: `_as_array_or_scalar` -/

def lookupShape (bs : List (String × Shape)) (n : String) : Option Shape :=
  (bs.find? (·.1 == n)).map (·.2)

/-- one axis of `get_shape_after_broadcasting` -/
def bcastAxis : List Nat → Option Nat
  | [] => none
  | l :: ls => ls.foldlM (fun cur n =>
      if n = cur ∨ n = 1 then some cur else if cur = 1 then some n else none) l

/-- `get_shape_after_broadcasting` (`none` = `CannotBroadcastError`) -/
def bcastShapes (shapes : List Shape) : Option Shape :=
  let rd := shapes.foldl (fun m s => max m s.length) 0
  let aug := shapes.map fun s => List.replicate (rd - s.length) 1 ++ s
  (List.range rd).mapM fun k => bcastAxis (aug.map (·.getD k 1))

/-- the `assert`s of `get_indexing_expression(s, r)` -/
def bcastOK (s r : Shape) : Bool :=
  decide (s.length ≤ r.length) &&
  (List.range s.length).all fun k =>
    s.getD k 0 == r.getD (r.length - s.length + k) 0 || s.getD k 0 == 1

/-- equality of an index expression with an expected `0` / `_k` -/
def matchesIdx : SExpr → SExpr → Bool
  | .int a, .int b => a == b
  | .idx a, .idx b => a == b
  | _, _ => false

def matchesAll : List SExpr → List SExpr → Bool
  | [], [] => true
  | e :: es, g :: gs => matchesIdx e g && matchesAll es gs
  | _, _ => false

/-- `binding_to_subscript[name] == expr`: the subscript is exactly the broadcast
    subscript of a binding of shape `s` in a result of shape `r` -/
def isBcastSub (s r : Shape) (ix : List SExpr) : Bool :=
  bcastOK s r && matchesAll (Lower.bcastSubscript s r) ix

def asOperand (shape : Shape) (bs : List (String × Shape)) : SExpr → Option Operand
  | .int n => some (.scalar (.int n))
  | .bool b => some (.scalar (.bool b))
  | .rat p q => some (.scalar (.rat p q))
  | .nan => some (.scalar .nan)
  | .var x =>
    (match lookupShape bs x with
     | some s => if s = [] then some (.arr x) else none
     | none => none)
  | .sub a ix =>
    (match lookupShape bs a with
     | some s => if isBcastSub s shape ix then some (.arr a) else none
     | none => none)
  | _ => none

def asOperandList (shape : Shape) (bs : List (String × Shape)) : List SExpr → Option (List Operand)
  | [] => some []
  | e :: es =>
    match asOperand shape bs e, asOperandList shape bs es with
    | some o, some os => some (o :: os)
    | _, _ => none

/-- the shapes of the array operands -/
def operandShapes (bs : List (String × Shape)) : List Operand → List Shape
  | [] => []
  | .arr x :: r =>
    (match lookupShape bs x with
     | some s => s :: operandShapes bs r
     | none => operandShapes bs r)
  | .scalar _ :: r => operandShapes bs r

/-- `_as_array_or_scalar`: the bindings broadcast to the index lambda's shape, and so do the
    OPERANDS (a binding that is no operand takes no part in NumPy's broadcasting) -/
def asOperands (shape : Shape) (bs : List (String × Shape)) (es : List SExpr) :
    Option (List Operand) :=
  if bcastShapes (bs.map (·.2)) = some shape then
    match asOperandList shape bs es with
    | some os => if bcastShapes (operandShapes bs os) = some shape then some os else none
    | none => none
  else none

/-! ### the cascade -/

def isLit : SExpr → Bool
  | .int _ | .bool _ | .rat _ _ => true
  | _ => false

/-- what classifies as `FullOp` at the root: a scalar constant (`SCALAR_CLASSES`) or a pymbolic
    `NaN` node whose type is absent or inexact (`pt.full(shape, nan)`).  The serialiser spells
    every constant outside the exact value domain — such a NaN node, a `nan`, `±inf`, a non-real
    complex — as `.nan`; its value is `undef`.  A NaN node typed with an INTEGER or BOOL type
    (there is no such value; the real raiser refuses it since 35c41c4) is spelled as a call of
    the unknown function `pytato.nan_as_<dtype>`: `undef` as a value, matched by no stage. -/
def isFill : SExpr → Bool
  | .int _ | .bool _ | .rat _ _ | .nan => true
  | _ => false

/-- operator and children of a binary-operation expression -/
def binChildren : SExpr → Option (BinOp × SExpr × SExpr)
  | .quot a c => some (.truediv, a, c)
  | .fdiv a c => some (.floordiv, a, c)
  | .rem a c => some (.mod, a, c)
  | .pow a c => some (.power, a, c)
  | .add a c =>
    (match c with
     | .mul (.int m) d => if m = -1 then some (.sub, a, d) else some (.add, a, c)
     | _ => some (.add, a, c))
  | .mul a c => some (.mult, a, c)
  | .land a c => some (.logicalAnd, a, c)
  | .lor a c => some (.logicalOr, a, c)
  | .cmp op a c => some (.cmp op, a, c)
  | .call f args =>
    (match args with
     | [a, c] =>
       if f = "bitand" then some (.bitwiseAnd, a, c)
       else if f = "bitor" then some (.bitwiseOr, a, c)
       else if f = "bitxor" then some (.bitwiseXor, a, c)
       else none
     | _ => none)
  | _ => none

def tryBinary (inner : SExpr) (shape : Shape) (bs : List (String × Shape)) : Option HLO :=
  match binChildren inner with
  | some (op, a, c) =>
    (match asOperands shape bs [a, c] with
     | some [x1, x2] => some (.binary op x1 x2)
     | _ => none)
  | none => none

def c99Funcs : List String :=
  ["abs", "sin", "cos", "tan", "asin", "acos", "atan", "sinh", "cosh", "tanh", "exp", "log",
   "log10", "isnan", "sqrt", "conj", "real", "imag", "atan2"]

def c99Prefix : String := "pytato.c99."

def tryCall (inner : SExpr) (shape : Shape) (bs : List (String × Shape)) : Option HLO :=
  match inner with
  | .call f args =>
    (match c99Funcs.find? (fun g => c99Prefix ++ g == f) with
     | some g => (asOperands shape bs args).map fun os => .call g os
     | none => none)
  | _ => none

def tryZero (inner : SExpr) (shape : Shape) (bs : List (String × Shape)) : Option HLO :=
  match inner with
  | .call f args =>
    if f = "pytato.zero" then
      (match asOperands shape bs args with
       | some [.arr x] => some (.zerosLike x)
       | _ => none)
    else none
  | _ => none

def tryWhere (inner : SExpr) (shape : Shape) (bs : List (String × Shape)) : Option HLO :=
  match inner with
  | .ite c t e =>
    (match asOperands shape bs [c, t, e] with
     | some [oc, ot, oe] => some (.where_ oc ot oe)
     | _ => none)
  | _ => none

def tryNot (inner : SExpr) (shape : Shape) (bs : List (String × Shape)) : Option HLO :=
  match inner with
  | .lnot a =>
    (match asOperands shape bs [a] with
     | some [.arr x] => some (.logicalNot x)
     | _ => none)
  | _ => none

/-- the reduction variables of nested `reduce` nodes of operator `op`, outermost
    first, and the innermost body -/
def peelReduce (op : RedOp) : SExpr → List (String × SExpr × SExpr) × SExpr
  | .reduce op' v lo hi body =>
    if op' = op then
      let r := peelReduce op body
      ((v, lo, hi) :: r.1, r.2)
    else ([], .reduce op' v lo hi body)
  | e => ([], e)

/-- the loop of `_is_normal_reduce_expr` over the index tuple: returns the
    reduced axes `(dim, variable)` -/
def normalReduceAxes (bounds : List (String × SExpr × SExpr)) (s shape : Shape) :
    List SExpr → Nat → Nat → Option (List (Nat × String))
  | [], _, _ => some []
  | idx :: rest, idim, iout =>
    match idx with
    | .var v =>
      (match bounds.find? (·.1 == v) with
       | some (_, .int lo, .int hi) =>
         if lo = 0 ∧ idim < s.length ∧ hi = (s.getD idim 0 : Nat) then
           (normalReduceAxes bounds s shape rest (idim + 1) iout).map ((idim, v) :: ·)
         else none
       | _ => none)
    | .idx k =>
      if k = iout ∧ idim < s.length ∧ iout < shape.length ∧ s.getD idim 0 = shape.getD iout 0 then
        normalReduceAxes bounds s shape rest (idim + 1) (iout + 1)
      else none
    | _ => none

/-- `_is_normal_reduce_expr` + construction of the `ReduceOp` (on the expression
    as written, casts not dropped).  Besides the per-index checks of the loop
    (`normalReduceAxes`): the subscript has one index per operand axis; no
    reduction variable occurs twice (`seen_redn_vars`); every reduction variable
    occurs (`seen_redn_vars == set(bounds)`); every output axis is consumed
    (`i_out_dim == len(shape)`; the number of consumed output axes is the number
    of non-reduced subscript entries).  The names of the nested reduction
    variables must be distinct (always true for the keys of one `Reduce.bounds`).
    The axes `(dim, variable)` are listed in the NESTING order of the reduction
    variables (outermost first), which is the order in which `hloDenote`
    reduces; the real `ReduceOp.axes` is the same set as a dict. -/
def tryReduce (e : SExpr) (shape : Shape) (bs : List (String × Shape)) : Option HLO :=
  match e with
  | .reduce op v lo hi body =>
    let r := peelReduce op (.reduce op v lo hi body)
    (match r.2 with
     | .sub a ix =>
       (match lookupShape bs a with
        | some s =>
          if ix.length = s.length then
            (match normalReduceAxes r.1 s shape ix 0 0 with
             | some axes =>
               if (r.1.map (·.1)).Nodup ∧ (axes.map (·.2)).Nodup
                   ∧ (∀ b ∈ r.1, b.1 ∈ axes.map (·.2))
                   ∧ ix.length - axes.length = shape.length then
                 some (.reduce op a (r.1.flatMap fun b => axes.filter (·.2 == b.1)))
               else none
             | none => none)
          else none
        | none => none)
     | _ => none)
  | _ => none

/-- the reduction stage BEFORE the fix of `_is_normal_reduce_expr` (kept to state
    what was wrong with it, `raise_reduce_prefix_misreads`): only the per-index loop -/
def tryReducePreFix (e : SExpr) (shape : Shape) (bs : List (String × Shape)) : Option HLO :=
  match e with
  | .reduce op v lo hi body =>
    let r := peelReduce op (.reduce op v lo hi body)
    (match r.2 with
     | .sub a ix =>
       (match lookupShape bs a with
        | some s =>
          (normalReduceAxes r.1 s shape ix 0 0).map fun axes =>
            .reduce op a (r.1.flatMap fun b => axes.filter (·.2 == b.1))
        | none => none)
     | _ => none)
  | _ => none

/-- `_is_idx_lambda_broadcast_op` (on the expression as written) -/
def tryBroadcast (e : SExpr) (shape : Shape) (bs : List (String × Shape)) : Option HLO :=
  match e with
  | .sub a ix =>
    (match lookupShape bs a with
     | some s => if isBcastSub s shape ix then some (.broadcast a) else none
     | none => none)
  | .var x =>
    (match lookupShape bs x with
     | some s => if s = [] then some (.broadcast x) else none
     | none => none)
  | _ => none

/-- `index_lambda_to_high_level_op`; `none` = `UnknownIndexLambdaExpr` (or a crash) -/
def raise (e : SExpr) (shape : Shape) (bs : List (String × Shape)) : Option HLO :=
  let inner := dropCasts e
  if isFill inner then some (.full inner)
  else
    (tryBinary inner shape bs).orElse fun _ =>
    (tryCall inner shape bs).orElse fun _ =>
    (tryZero inner shape bs).orElse fun _ =>
    (tryWhere inner shape bs).orElse fun _ =>
    (tryNot inner shape bs).orElse fun _ =>
    (tryReduce e shape bs).orElse fun _ =>
    tryBroadcast e shape bs

/-! ### the NumPy meaning of a high-level operation -/

/-- exact subtraction, as the index lambda spells it: `a + (-1) * b` -/
def valSub (a b : Val) : Val := Val.add a (Val.mul (.i (-1)) b)

def BinOp.apply : BinOp → Val → Val → Val
  | .add => Val.add
  | .sub => valSub
  | .mult => Val.mul
  | .logicalOr => Val.lor
  | .logicalAnd => Val.land
  | .bitwiseOr => fun a b => callExact "bitor" [a, b]
  | .bitwiseAnd => fun a b => callExact "bitand" [a, b]
  | .bitwiseXor => fun a b => callExact "bitxor" [a, b]
  | .truediv => Val.quot
  | .floordiv => Val.fdiv
  | .power => Val.pow
  | .mod => Val.rem
  | .cmp op => Val.cmp op

/-- value of a literal -/
def litVal (c : SExpr) : Val := eval (idxEnv [] []) c

def lookupEnv (env : List (String × Arr Val)) (n : String) : Option (Arr Val) :=
  (env.find? (·.1 == n)).map (·.2)

/-- the operand broadcast to `shape` (NumPy broadcasting), at index `i` -/
def Operand.value (env : List (String × Arr Val)) (shape : Shape) (i : Idx) : Operand → Val
  | .arr n =>
    (match lookupEnv env n with
     | some a => (Spec.broadcastTo shape a).get i
     | none => .undef)
  | .scalar c => litVal c

/-- the full index into the reduced array: entry `d` is the value fixed for a
    reduced dim `d`, otherwise the next entry of the output index -/
def buildIdx (fixed : List (Nat × Nat)) : Nat → Nat → Idx → Idx
  | _, 0, _ => []
  | d, fuel + 1, rest =>
    match fixed.find? (·.1 == d) with
    | some (_, v) => v :: buildIdx fixed (d + 1) fuel rest
    | none => rest.headD 0 :: buildIdx fixed (d + 1) fuel rest.tail

/-- reduce `x` over the listed axes, one axis after the other (outermost first);
    `fixed` = the reduced dims decided so far as (dim, value) -/
def reduceOver (op : RedOp) (x : Arr Val) (out : Idx) :
    List (Nat × String) → List (Nat × Nat) → Val
  | [], fixed =>
    let j := buildIdx fixed 0 x.shape.length out
    if inB x.shape j then x.get j else .undef
  | (d, _) :: more, fixed =>
    op.fold ((List.range (x.shape.getD d 0)).map fun k => reduceOver op x out more ((d, k) :: fixed))

/-- positions of the variables (other than `_k`) in a subscript, from dim `d` on -/
def varPositions : List SExpr → Nat → List (Nat × String)
  | [], _ => []
  | .var v :: rest, d => (d, v) :: varPositions rest (d + 1)
  | _ :: rest, d => varPositions rest (d + 1)

/-- the array a high-level operation denotes, given the index lambda's shape -/
def hloDenote (h : HLO) (shape : Shape) (env : List (String × Arr Val)) : Arr Val :=
  ⟨shape, fun i =>
    match h with
    | .full c => litVal c
    | .binary op x1 x2 => op.apply (x1.value env shape i) (x2.value env shape i)
    | .call f args => callExact (c99Prefix ++ f) (args.map (·.value env shape i))
    | .zerosLike _ => .i 0
    | .where_ c t e =>
      (match (c.value env shape i).truthy? with
       | some true => t.value env shape i
       | some false => e.value env shape i
       | none => .undef)
    | .broadcast x => (Operand.arr x).value env shape i
    | .logicalNot x => Val.lnot ((Operand.arr x).value env shape i)
    | .reduce op x axes =>
      (match lookupEnv env x with
       | some a => reduceOver op a i axes []
       | none => .undef)⟩

end Raise
end Pt

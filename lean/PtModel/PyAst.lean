/-
  PtModel.PyAst — the fragment of Python's expression AST the NumPy-like target
  emits (`pytato/target/python/numpy_like.py`), and a PRINTER that reproduces
  `ast.unparse` on it, including operator precedence and parenthesisation.

  Numeric literals: `ast.unparse` prints `Constant(v)` as `repr(v)`.  The
  shortest-round-trip spelling of a float (and NumPy's `np.float32(1.5)` spelling
  of a typed scalar) is not re-derived here: a literal carries the spelling of
  its NON-NEGATIVE magnitude as an atom (supplied by the serialiser, compared
  on every run) next to its exact value.  Everything structural — sign handling,
  `nan`/`inf` spellings, parentheses, argument order, keywords — is modelled.
-/
import PtModel.Scalar
namespace Pt
namespace Py

/-- the Python binary operators the target emits (`SIMPLE_BINOP_TO_AST_OP`) -/
inductive BinOp where
  | add | sub | mult | div | floordiv | mod | pow | bitor | bitxor | bitand
deriving DecidableEq, Repr

/-- `ast._Precedence` (only the order matters): BOR < BXOR < BAND < SHIFT < ARITH <
    TERM < FACTOR < POWER < ATOM -/
def BinOp.prec : BinOp → Nat
  | .bitor => 1 | .bitxor => 2 | .bitand => 3
  | .add | .sub => 5
  | .mult | .div | .floordiv | .mod => 6
  | .pow => 8

def precFactor : Nat := 7
def precAtom : Nat := 10

def BinOp.sym : BinOp → String
  | .add => "+" | .sub => "-" | .mult => "*" | .div => "/" | .floordiv => "//" | .mod => "%"
  | .pow => "**" | .bitor => "|" | .bitxor => "^" | .bitand => "&"

/-- `**` is right-associative: `ast.unparse` prints its LEFT operand one level higher
    and its right operand at the operator's own level; all others the other way round -/
def BinOp.leftPrec (op : BinOp) : Nat := if op = .pow then op.prec + 1 else op.prec
def BinOp.rightPrec (op : BinOp) : Nat := if op = .pow then op.prec else op.prec + 1

mutual
inductive PyExpr where
  | name (s : String)
  /-- a non-negative numeric literal (or typed scalar such as `np.float32(1.5)`): spelling and value -/
  | num (text : String) (v : Val)
  /-- a string constant (printed in single quotes; the fragment needs no escapes) -/
  | str (s : String)
  /-- `UnaryOp(USub, e)` -/
  | neg (e : PyExpr)
  | attr (e : PyExpr) (a : String)
  | call (f : PyExpr) (args : List PyExpr) (kw : List (String × PyExpr))
  | bin (op : BinOp) (l r : PyExpr)
  | tuple (es : List PyExpr)
  | list (es : List PyExpr)
  /-- `Dict` with string-constant keys -/
  | dict (kvs : List (String × PyExpr))
  /-- `Subscript(v, Tuple(ix))` -/
  | subscript (v : PyExpr) (ix : List PyIdx)
inductive PyIdx where
  | expr (e : PyExpr)
  | slice (lo up step : Option PyExpr)
end

/-- precedence at which a node prints without parentheses -/
def PyExpr.prec : PyExpr → Nat
  | .neg _ => precFactor
  | .bin op _ _ => op.prec
  | _ => precAtom

def parenIf (b : Bool) (s : String) : String := if b then "(" ++ s ++ ")" else s

def commaSep (xs : List String) : String := ", ".intercalate xs

/-- elements of a tuple: a one-element tuple keeps its trailing comma -/
def commaTuple : List String → String
  | [x] => x ++ ","
  | xs => commaSep xs

mutual
/-- `ast.unparse` of an expression in a context requiring precedence `ctx` -/
def PyExpr.printAt : Nat → PyExpr → String
  | _, .name s => s
  | _, .num t _ => t
  | _, .str s => "'" ++ s ++ "'"
  | ctx, .neg e => parenIf (decide (precFactor < ctx)) ("-" ++ PyExpr.printAt precFactor e)
  | _, .attr e a => PyExpr.printAt precAtom e ++ "." ++ a
  | _, .call f args kw =>
    PyExpr.printAt precAtom f ++ "(" ++ commaSep (printArgs args ++ printKws kw) ++ ")"
  | ctx, .bin op l r =>
    parenIf (decide (op.prec < ctx))
      (PyExpr.printAt op.leftPrec l ++ " " ++ op.sym ++ " " ++ PyExpr.printAt op.rightPrec r)
  | _, .tuple es => "(" ++ commaTuple (printArgs es) ++ ")"
  | _, .list es => "[" ++ commaSep (printArgs es) ++ "]"
  | _, .dict kvs => "{" ++ commaSep (printItems kvs) ++ "}"
  | _, .subscript v ix =>
    PyExpr.printAt precAtom v ++ "[" ++ commaTuple (printIdxs ix) ++ "]"
def printArgs : List PyExpr → List String
  | [] => []
  | e :: es => PyExpr.printAt 0 e :: printArgs es
def printKws : List (String × PyExpr) → List String
  | [] => []
  | (k, e) :: r => (k ++ "=" ++ PyExpr.printAt 0 e) :: printKws r
def printItems : List (String × PyExpr) → List String
  | [] => []
  | (k, e) :: r => ("'" ++ k ++ "': " ++ PyExpr.printAt 0 e) :: printItems r
def printIdxs : List PyIdx → List String
  | [] => []
  | i :: r => PyIdx.print i :: printIdxs r
def printOpt : Option PyExpr → String
  | none => ""
  | some e => PyExpr.printAt 0 e
def PyIdx.print : PyIdx → String
  | .expr e => PyExpr.printAt 0 e
  | .slice lo up step =>
    printOpt lo ++ ":" ++ printOpt up ++
      (match step with
       | none => ""
       | some s => ":" ++ PyExpr.printAt 0 s)
end

def PyExpr.print (e : PyExpr) : String := e.printAt 0

/-- a statement of the generated function body -/
inductive PyStmt where
  | assign (lhs : String) (rhs : PyExpr)
  | ret (name : String)

def PyStmt.print : PyStmt → String
  | .assign l r => l ++ " = " ++ r.print
  | .ret n => "return " ++ n

end Py
end Pt

/-
  PtModel.Verify — model of `verify_distributed_partition` (pytato/distributed/verify.py) on the
  partition records of all ranks: which diagnostic classes a (possibly hand-made or
  post-processed) partition deserves.  Executable, no Mathlib.
-/
import PtModel.Dist
namespace Pt.Dist

inductive VDiag where
  | assertion        -- AssertionError: name produced twice / received name is an output / received
                     --   twice / a partition input defined nowhere
  | dupSend          -- DuplicateSendError
  | dupRecv          -- DuplicateRecvError
  | missingSend      -- MissingSendError: a receive without a send
  | missingRecv      -- MissingRecvError: a send without a receive
  | cycle            -- PartitionInducedCycleError
deriving DecidableEq, Repr

def VDiag.name : VDiag → String
  | .assertion => "AssertionError" | .dupSend => "DuplicateSendError"
  | .dupRecv => "DuplicateRecvError" | .missingSend => "MissingSendError"
  | .missingRecv => "MissingRecvError" | .cycle => "PartitionInducedCycleError"

/-- `partition_input_names` of part `(r, pid)`: names read from other parts -/
abbrev PinOf := Nat → Nat → List Name

section
variable (P : Partition) (pin : PinOf)

def ranksOf : List Nat := List.range P.length

/-- all send ids of the partition, with multiplicity -/
def vSendIds : List CommId :=
  (ranksOf P).flatMap fun r => (P.parts r).flatMap fun p => p.sends.map fun sd => ⟨r, sd.dst, sd.tag⟩

def vRecvIds : List CommId :=
  (ranksOf P).flatMap fun r => (P.parts r).flatMap fun p => p.recvs.map fun rc => ⟨rc.src, r, rc.tag⟩

/-- the consistency assertions of the root -/
def vAssertionsHold : Bool :=
  (ranksOf P).all fun r =>
    let ps := P.parts r
    decide (allOutputs ps).Nodup
    && (allRecvs ps).all (fun rc => !(allOutputs ps).contains rc.name)
    && decide ((allRecvs ps).map (·.name)).Nodup
    && ps.all fun p => (pin r p.pid).all fun n =>
        (allOutputs ps).contains n || ((allRecvs ps).map (·.name)).contains n

/-- edges of the graph of parts: needed pids, the sender of every receive, the part defining
    every partition input -/
def vPartDeps (node : Nat × Nat) : List (Nat × Nat) :=
  let ps := P.parts node.1
  (ps.filter fun p => p.pid == node.2).flatMap fun p =>
    p.needs.map (fun q => (node.1, q))
    ++ p.recvs.flatMap (fun rc =>
        ((P.parts rc.src).filter fun q => q.sends.any fun sd => sd.dst == node.1 && sd.tag == rc.tag).map
          fun q => (rc.src, q.pid))
    ++ (pin node.1 p.pid).flatMap fun n =>
        ((ps.filter fun q => q.pid != p.pid && (q.outputs.contains n || q.recvNames.contains n)).map
          fun q => (node.1, q.pid))

def vCyclic : Bool := !acyclicB (partNodes P) (vPartDeps P pin)

/-- every diagnostic class the partition deserves; `[]` = verify accepts -/
def verifyViolated : List VDiag :=
  (if vAssertionsHold P pin then [] else [VDiag.assertion])
  ++ (if decide (vSendIds P).Nodup then [] else [VDiag.dupSend])
  ++ (if decide (vRecvIds P).Nodup then [] else [VDiag.dupRecv])
  ++ (if (vRecvIds P).all fun c => (vSendIds P).contains c then [] else [VDiag.missingSend])
  ++ (if (vSendIds P).all fun c => (vRecvIds P).contains c then [] else [VDiag.missingRecv])
  ++ (if vCyclic P pin then [VDiag.cycle] else [])

end

end Pt.Dist

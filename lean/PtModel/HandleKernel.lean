/-
  ptdriver queries of the `kernel` family.
    (kernel check <kernel>)                                   -> #t / #f
    (kernel exec <kernel> (order id…) (binding…) (out name…)) -> (shape) (vals) per output
  <kernel> ::= ((stmt id lhs (idx…) ((iname lo hi)…) ((name expr)…) rhs (dep…)) | (noop id (dep…)) …)
-/
import PtModel.Sexp
import PtModel.Kernel
namespace Pt

def parseStmt : Sx → Option KStmt
  | .list [.atom "noop", .atom id, .list deps] => do
    let ds ← deps.mapM Sx.asAtom?
    some { id := id, lhs := "", lhsIdx := [], loops := [], lets := [], rhs := .int 0, deps := ds, noop := true }
  | .list [.atom "stmt", .atom id, .atom lhs, .list idx, .list loops, .list lets, rhs, .list deps] => do
    let ix ← idx.mapM SExpr.ofSx
    let ls ← loops.mapM fun
      | .list [.atom v, lo, hi] => do some (v, ← SExpr.ofSx lo, ← SExpr.ofSx hi)
      | _ => none
    let lt ← lets.mapM fun
      | .list [.atom v, e] => do some (v, ← SExpr.ofSx e)
      | _ => none
    let r ← SExpr.ofSx rhs
    let ds ← deps.mapM Sx.asAtom?
    some { id := id, lhs := lhs, lhsIdx := ix, loops := ls, lets := lt, rhs := r, deps := ds }
  | _ => none

def parseKernel : Sx → Option Kernel
  | .list ss => ss.mapM parseStmt
  | _ => none

def handleKernel : List Sx → Option String
  | [.atom "check", k] => do
    let k ← parseKernel k
    some (if checkKernel k then "#t" else "#f")
  | [.atom "exec", k, .list order, .list binds, .list outs] => do
    let k ← parseKernel k
    let ids ← order.mapM Sx.asAtom?
    let stmts ← ids.mapM fun i => k.find? (·.id == i)
    let bs ← binds.mapM parseBinding
    let σ := execOrder bs stmts
    let names ← outs.mapM Sx.asAtom?
    let parts := names.map fun n =>
      match σ.get? n with
      | some a => s!"({n} ({" ".intercalate (a.shape.map toString)}) ({" ".intercalate (a.toList.map Val.toWire)}))"
      | none => s!"({n} missing)"
    let ok := if respectsDeps stmts then "#t" else "#f"
    some (ok ++ " " ++ " ".intercalate parts)
  | _ => none

end Pt

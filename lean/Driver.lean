import PtModel.Handle
open Pt

partial def loop (h : IO.FS.Stream) (out : IO.FS.Stream) : IO Unit := do
  let line ← h.getLine
  if line.isEmpty then return ()
  let l := line.trimAscii.toString
  if l.isEmpty then
    out.putStrLn "err:empty"
  else
    match Sx.parse l with
    | some q => out.putStrLn (handle q)
    | none => out.putStrLn "err:sexp"
  loop h out

def main : IO Unit := do
  let stdin ← IO.getStdin
  let stdout ← IO.getStdout
  loop stdin stdout
  stdout.flush

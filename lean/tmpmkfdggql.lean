import PtProofs.C13Tables
#print axioms Pt.children_tables_complete

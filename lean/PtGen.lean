-- generated tables are imported here as they are added
import PtGen.EqTable
import PtGen.Children
import PtGen.ChildrenWitness
import PtGen.Distribute
import PtGen.Dtypes
import PtGen.ApiNames
